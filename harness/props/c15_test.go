package props

import (
	"bytes"
	"fmt"
	"os"
	"os/exec"
	"path/filepath"
	"sort"
	"strings"
	"testing"

	"github.com/goreleaser/nfpm/v2"
	"pgregory.net/rapid"
)

func stripEpoch(v string) string {
	if i := strings.IndexByte(v, ':'); i >= 0 {
		return v[i+1:]
	}
	return v
}

// expectedFileName re-assembles the conventional name from metadata decoded out of the package.
func expectedFileName(f string, d *Decoded) (string, error) {
	dm, err := decodeMeta(f, d)
	if err != nil {
		return "", err
	}
	switch f {
	case "deb":
		return fmt.Sprintf("%s_%s_%s.deb", dm.Name, stripEpoch(dm.Version), dm.Arch), nil
	case "ipk":
		return fmt.Sprintf("%s_%s_%s.ipk", dm.Name, stripEpoch(dm.Version), dm.Arch), nil
	case "rpm":
		return fmt.Sprintf("%s-%s-%s.%s.rpm", dm.Name, dm.Version, dm.Release, dm.Arch), nil
	case "apk":
		return fmt.Sprintf("%s_%s_%s.apk", dm.Name, dm.Version, dm.Arch), nil
	case "archlinux":
		return fmt.Sprintf("%s-%s-%s.pkg.tar.zst", dm.Name, stripEpoch(dm.Version), dm.Arch), nil
	}
	return "", fmt.Errorf("unknown format")
}

func checkC15Lib(c *BuildCase) []Violation {
	var vs vlist
	err := c.withRoot(func(root string) error {
		for _, f := range c.formats() {
			fresh, err := c.BuildOne(root, f)
			if err != nil {
				vs.add("C15.build", f, "valid configuration rejected: %v", err)
				continue
			}
			d, err := Decode(f, fresh)
			if err != nil || d == nil {
				vs.add("C15.decode", f, "%v", err)
				continue
			}
			want, err := expectedFileName(f, d)
			if err != nil {
				vs.add("C15.decode", f, "%v", err)
				continue
			}
			cfg, err := c.ParseConfigFor(root, f)
			if err != nil {
				return err
			}
			info, err := cfg.Get(f)
			if err != nil {
				return err
			}
			info = nfpm.WithDefaults(info)
			p, _ := nfpm.Get(f)
			got := p.ConventionalFileName(info)
			if got != want {
				clause := "C15.filename"
				if f == "archlinux" && c.Meta.Prerelease != "" && c.Meta.Epoch == "" {
					// the name carries the prerelease, the metadata does not (see C02 finding): tell the two apart
					dm, _ := decodeMeta(f, d)
					pre := strings.ReplaceAll(c.Meta.Prerelease, "-", "_")
					if strings.Replace(got, c.Meta.Version+pre+"-", c.Meta.Version+"-", 1) == want && !strings.Contains(dm.Version, pre) {
						clause = "C15.filename.arch-prerelease"
					}
				}
				vs.add(clause, f, "ConventionalFileName %q, metadata inside the package says %q", got, want)
			}
			if pe, ok := p.(nfpm.PackagerWithExtension); ok {
				if !strings.HasSuffix(got, pe.ConventionalExtension()) {
					vs.add("C15.extension", f, "file name %q does not end in the conventional extension %q", got, pe.ConventionalExtension())
				}
			} else {
				vs.add("C15.extension", f, "packager does not report a conventional extension")
			}
			// asking twice gives the same answer
			if again := p.ConventionalFileName(info); again != got {
				vs.add("C15.filename-unstable", f, "second call returns %q, first %q", again, got)
			}
			// packaging after asking for the name equals packaging a fresh info
			var buf bytes.Buffer
			if err := p.Package(info, &buf); err != nil {
				vs.add("C15.package-after-name", f, "Package after ConventionalFileName fails: %v", err)
			} else if !bytes.Equal(buf.Bytes(), fresh) {
				vs.add("C15.package-after-name", f, "package built after asking for the file name differs from a fresh build (%d vs %d bytes)", buf.Len(), len(fresh))
			}
		}
		return nil
	})
	if err != nil {
		panic(err)
	}
	return vs
}

// ---------- CLI ----------

func nfpmBinary() string { return os.Getenv("VERIF_NFPM") }

type CLICase struct {
	Case     *BuildCase `json:"case"`
	Packager string     `json:"packager"`        // format the package is meant for
	PassP    bool       `json:"pass_p"`          // give -p
	Target   string     `json:"target"`          // kind: file-matching | file-foreign | dir | empty | dir-slash
	Stale    bool       `json:"stale,omitempty"` // a longer file already sits at the final path
}

func magicOf(f string, b []byte) bool {
	switch f {
	case "deb":
		return bytes.HasPrefix(b, []byte("!<arch>\n"))
	case "rpm":
		return bytes.HasPrefix(b, []byte{0xed, 0xab, 0xee, 0xdb})
	case "archlinux":
		return bytes.HasPrefix(b, []byte{0x28, 0xb5, 0x2f, 0xfd})
	case "apk":
		d, err := DecodeAPK(b)
		return err == nil && len(d.PkgInfo) > 0
	case "ipk":
		_, err := DecodeIPK(b)
		return err == nil
	}
	return false
}

func listFiles(dir string) []string {
	var out []string
	_ = filepath.Walk(dir, func(p string, fi os.FileInfo, err error) error {
		if err == nil && !fi.IsDir() {
			r, _ := filepath.Rel(dir, p)
			out = append(out, r)
		}
		return nil
	})
	sort.Strings(out)
	return out
}

var extOf = map[string]string{"deb": ".deb", "rpm": ".rpm", "apk": ".apk", "ipk": ".ipk", "archlinux": ".pkg.tar.zst"}

func checkC15CLI(cc *CLICase) []Violation {
	var vs vlist
	bin := nfpmBinary()
	c := cc.Case
	err := c.withRoot(func(root string) error {
		f := cc.Packager
		work := filepath.Join(root, "work")
		outdir := filepath.Join(root, "out dir")
		_ = os.MkdirAll(work, 0o755)
		_ = os.MkdirAll(outdir, 0o755)
		cfgPath := filepath.Join(root, "nfpm.yaml")
		if err := os.WriteFile(cfgPath, c.YAMLFor(root, f), 0o644); err != nil {
			return err
		}
		// what the library says the conventional name is
		cfg, err := c.ParseConfigFor(root, f)
		if err != nil {
			return err
		}
		info, _ := cfg.Get(f)
		info = nfpm.WithDefaults(info)
		p, _ := nfpm.Get(f)
		conv := p.ConventionalFileName(info)
		args := []string{"package", "-f", cfgPath}
		wantPath := ""
		expectError := false
		eitherWay := false // refusal (no file) and success (the right package at the right place) both satisfy the statement
		switch cc.Target {
		case "file-matching":
			wantPath = filepath.Join(outdir, "custom-name"+extOf[f])
			args = append(args, "-t", wantPath)
		case "file-foreign":
			other := map[string]string{"deb": ".rpm", "rpm": ".deb", "apk": ".deb", "ipk": ".apk", "archlinux": ".deb"}[f]
			wantPath = filepath.Join(outdir, "foreign"+other)
			args = append(args, "-t", wantPath)
		case "file-noext":
			wantPath = filepath.Join(outdir, "noextension")
			args = append(args, "-t", wantPath)
		case "dir":
			wantPath = filepath.Join(outdir, conv)
			args = append(args, "-t", outdir)
		case "dir-slash":
			wantPath = filepath.Join(outdir, conv)
			args = append(args, "-t", outdir+"/")
		case "empty":
			wantPath = filepath.Join(work, conv)
		}
		if cc.PassP {
			args = append(args, "-p", f)
		} else {
			switch cc.Target {
			case "dir", "dir-slash", "empty", "file-noext":
				expectError = true
			case "file-foreign":
				// without -p the extension decides: a package of the *other* format is the right outcome
			case "file-matching":
				if f == "archlinux" {
					// ".zst" names no packager today, so the command refuses; a command that recognises the
					// conventional ".pkg.tar.zst" is inferring from the extension too: both outcomes are allowed
					eitherWay = true
				}
			}
		}
		if cc.Stale && !expectError && !eitherWay {
			// something longer than the package is already there (an earlier build, another file of that name)
			_ = os.WriteFile(wantPath, bytes.Repeat([]byte("stale bytes of an earlier file\n"), 40000), 0o644)
		}
		cmd := exec.Command(bin, args...)
		cmd.Dir = work
		cmd.Env = append(os.Environ(), "SOURCE_DATE_EPOCH=1000000000")
		out, runErr := cmd.CombinedOutput()
		files := append(listFiles(work), listFiles(outdir)...)
		if eitherWay && runErr != nil {
			expectError = true
		}
		if expectError {
			if runErr == nil {
				vs.add("C15.cli.no-packager-accepted", f, "nfpm %v succeeded although no packager can be determined; files: %v", args[3:], files)
			}
			if len(files) != 0 {
				vs.add("C15.cli.stray-file", f, "nfpm %v failed but left files %v", args[3:], files)
			}
			return nil
		}
		if runErr != nil {
			vs.add("C15.cli.failed", f, "nfpm %v failed: %v: %s", args[3:], runErr, strings.TrimSpace(string(out)))
			return nil
		}
		if len(files) != 1 {
			vs.add("C15.cli.file-count", f, "nfpm %v created %d files %v, expected exactly %s", args[3:], len(files), files, wantPath)
			return nil
		}
		b, err := os.ReadFile(wantPath)
		if err != nil {
			vs.add("C15.cli.wrong-place", f, "nfpm %v did not write %s; files created: %v", args[3:], wantPath, files)
			return nil
		}
		wantFormat := f
		if !cc.PassP && cc.Target == "file-foreign" {
			wantFormat = map[string]string{"deb": "rpm", "rpm": "deb", "apk": "deb", "ipk": "apk", "archlinux": "deb"}[f]
		}
		if !magicOf(wantFormat, b) {
			vs.add("C15.cli.wrong-packager", f, "nfpm %v wrote %s which is not a %s package", args[3:], wantPath, wantFormat)
		}
		// the file holds exactly the package: the same bytes the library produces for these settings
		if lib, err := c.BuildOne(root, wantFormat); err == nil && !bytes.Equal(lib, b) {
			vs.add("C15.cli.file-content", f, "nfpm %v wrote %d bytes to %s, the package for these settings has %d bytes%s", args[3:], len(b), wantPath, len(lib), describeDiff(wantFormat, b, lib))
		}
		if !strings.Contains(string(out), wantPath) && cc.Target != "empty" {
			vs.add("C15.cli.output", f, "nfpm does not report the created path %s: %q", wantPath, out)
		}
		return nil
	})
	if err != nil {
		panic(err)
	}
	return vs
}

func nontrivialC15(c *BuildCase) bool {
	m := &c.Meta
	parts := 0
	for _, s := range []string{m.Epoch, m.Prerelease, m.VersionMetadata, m.Release} {
		if s != "" {
			parts++
		}
	}
	return parts >= 2 || (m.Arch != "amd64" && m.Arch != "all")
}

func TestC15(t *testing.T) {
	st := newStats("C15")
	defer st.Flush()
	var rc struct {
		Lib *BuildCase `json:"lib"`
		CLI *CLICase   `json:"cli"`
	}
	if replayCase(&rc) {
		st.Record(&rc, true, "replay")
		if rc.Lib != nil {
			st.Report(t, &rc, checkC15Lib(rc.Lib))
		}
		if rc.CLI != nil {
			st.Report(t, &rc, checkC15CLI(rc.CLI))
		}
		return
	}
	if nfpmBinary() == "" {
		t.Fatalf("VERIF_NFPM (path of the nfpm binary built from the working tree) is not set")
	}
	// CLI: every target kind x {-p given, omitted} x five formats
	n := 0
	for _, f := range AllFormats {
		for _, tk := range []string{"file-matching", "file-foreign", "file-noext", "dir", "dir-slash", "empty"} {
			for _, passP := range []bool{true, false} {
				c := metaBaseCase()
				c.Meta = Meta{Name: "clipkg", Arch: "arm64", Version: "1.2.3", Prerelease: "rc1", Release: "2", Maintainer: "V <v@example.com>", Description: "cli"}
				if f == "archlinux" {
					c.Meta.Prerelease = "" // keep the known pkgver finding out of the CLI matrix
				}
				// every format has an override block: the CLI must build the effective settings of the format it ends up using
				c.Extra = map[string]any{"overrides": map[string]any{}}
				for _, g := range AllFormats {
					c.Extra["overrides"].(map[string]any)[g] = map[string]any{"depends": []any{"only-for-" + g}}
				}
				cc := &CLICase{Case: c, Packager: f, PassP: passP, Target: tk, Stale: n%2 == 1}
				st.Record(map[string]any{"packager": f, "target": tk, "pass_p": passP, "stale": cc.Stale}, true, "cli-matrix", "cli-target:"+tk)
				st.Report(t, map[string]any{"cli": cc}, checkC15CLI(cc))
				n++
			}
		}
	}
	st.Exhaustive["CLI target kind x -p given/omitted x format"] = n
	i := 0
	rapid.Check(t, func(rt *rapid.T) {
		c := metaBaseCase()
		genFullMeta(rt, c)
		c.Meta.Platform = "linux"
		var labels []string
		if rapid.IntRange(0, 5).Draw(rt, "foreign-platform") == 0 {
			// a non-linux platform is only meaningful for deb and rpm (apk and archlinux refuse it; ipk has no notion of it)
			c.Meta.Platform = rapid.SampledFrom([]string{"darwin", "freebsd"}).Draw(rt, "platform")
			c.Formats = []string{"deb", "rpm", "ipk"}
			labels = append(labels, "platform:"+c.Meta.Platform)
		}
		if c.Meta.Prerelease != "" {
			labels = append(labels, "prerelease")
		}
		if c.Meta.Epoch != "" {
			labels = append(labels, "epoch")
		}
		if c.Meta.VersionMetadata != "" {
			labels = append(labels, "metadata")
		}
		st.Record(c, nontrivialC15(c), labels...)
		st.Report(rt, map[string]any{"lib": c}, checkC15Lib(c))
		i++
		if i%10 == 0 {
			cc := &CLICase{Case: c, Packager: rapid.SampledFrom(c.formats()).Draw(rt, "cli.format"), PassP: true,
				Target: rapid.SampledFrom([]string{"file-matching", "dir", "empty", "file-foreign"}).Draw(rt, "cli.target")}
			st.Record(map[string]any{"cli-random": cc.Packager + "/" + cc.Target, "name": c.Meta.Name, "version": c.Meta.Version}, true, "cli-random")
			st.Report(rt, map[string]any{"cli": cc}, checkC15CLI(cc))
		}
	})
}
