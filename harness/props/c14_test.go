package props

import (
	"fmt"
	"os/exec"
	"strconv"
	"strings"
	"testing"
	"unicode"

	"github.com/goreleaser/nfpm/v2"
	"pgregory.net/rapid"
)

// ---------- G-VERSION ----------

type GenVersion struct {
	Text    string `json:"text"`   // the version string as written in the config
	IsSem   bool   `json:"is_sem"` // parses as a (lenient) semantic version by construction
	Core    string `json:"core"`   // expected major.minor.patch
	Pre     string `json:"pre"`    // prerelease part embedded in Text
	Meta    string `json:"meta"`   // metadata part embedded in Text
	NearHow string `json:"near,omitempty"`
}

var preIdent = rapid.OneOf(
	rapid.StringMatching(`[a-zA-Z][0-9A-Za-z-]{0,5}`),
	rapid.StringMatching(`[1-9][0-9]{0,3}`),
	rapid.Just("0"),
	rapid.StringMatching(`[0-9]{1,2}[a-z-][0-9a-z-]{0,3}`), // alphanumeric identifiers may start with digits/zeros
	rapid.Just("rc"), rapid.Just("beta"), rapid.Just("alpha"),
)

var metaIdent = rapid.StringMatching(`[0-9A-Za-z-]{1,6}`)

func genNum(t *rapid.T, label string) uint64 {
	switch rapid.IntRange(0, 5).Draw(t, label+".class") {
	case 0:
		return 0
	case 1:
		return uint64(rapid.IntRange(9, 11).Draw(t, label))
	case 2:
		return uint64(rapid.Uint32Range(1000, 1<<31-1).Draw(t, label))
	default:
		return uint64(rapid.IntRange(0, 99).Draw(t, label))
	}
}

func genDotted(t *rapid.T, label string, g *rapid.Generator[string]) string {
	n := rapid.IntRange(1, 3).Draw(t, label+".n")
	var parts []string
	for i := 0; i < n; i++ {
		parts = append(parts, g.Draw(t, fmt.Sprintf("%s.%d", label, i)))
	}
	return strings.Join(parts, ".")
}

func genVersion(t *rapid.T, label string) GenVersion {
	var g GenVersion
	if rapid.IntRange(0, 5).Draw(t, label+".near") == 0 {
		g.NearHow = rapid.SampledFrom([]string{"four-parts", "empty-part", "non-numeric-major", "space", "leading-plus", "trailing-dot", "leading-zero-prerelease", "empty-prerelease"}).Draw(t, label+".how")
		switch g.NearHow {
		case "four-parts":
			g.Text = fmt.Sprintf("%d.%d.%d.%d", genNum(t, label+".a"), genNum(t, label+".b"), genNum(t, label+".c"), genNum(t, label+".d"))
		case "empty-part":
			g.Text = fmt.Sprintf("%d..%d", genNum(t, label+".a"), genNum(t, label+".c"))
		case "non-numeric-major":
			g.Text = "x" + fmt.Sprintf(".%d.%d", genNum(t, label+".b"), genNum(t, label+".c"))
		case "space":
			g.Text = fmt.Sprintf("%d.%d %d", genNum(t, label+".a"), genNum(t, label+".b"), genNum(t, label+".c"))
		case "leading-plus":
			g.Text = fmt.Sprintf("+%d.%d.%d", genNum(t, label+".a"), genNum(t, label+".b"), genNum(t, label+".c"))
		case "trailing-dot":
			g.Text = fmt.Sprintf("%d.%d.", genNum(t, label+".a"), genNum(t, label+".b"))
		case "leading-zero-prerelease":
			g.Text = fmt.Sprintf("%d.%d.%d-01", genNum(t, label+".a"), genNum(t, label+".b"), genNum(t, label+".c"))
		case "empty-prerelease":
			g.Text = fmt.Sprintf("%d.%d.%d-", genNum(t, label+".a"), genNum(t, label+".b"), genNum(t, label+".c"))
		}
		return g
	}
	g.IsSem = true
	nparts := rapid.SampledFrom([]int{3, 3, 3, 2, 1}).Draw(t, label+".nparts")
	nums := []uint64{genNum(t, label+".maj"), 0, 0}
	txt := fmt.Sprint(nums[0])
	if nparts >= 2 {
		nums[1] = genNum(t, label+".min")
		txt += fmt.Sprintf(".%d", nums[1])
	}
	if nparts >= 3 {
		nums[2] = genNum(t, label+".pat")
		txt += fmt.Sprintf(".%d", nums[2])
	}
	g.Core = fmt.Sprintf("%d.%d.%d", nums[0], nums[1], nums[2])
	if rapid.Bool().Draw(t, label+".v") {
		txt = "v" + txt
	}
	if rapid.Bool().Draw(t, label+".pre?") {
		g.Pre = genDotted(t, label+".pre", preIdent)
		txt += "-" + g.Pre
	}
	if rapid.Bool().Draw(t, label+".meta?") {
		g.Meta = genDotted(t, label+".meta", metaIdent)
		txt += "+" + g.Meta
	}
	g.Text = txt
	return g
}

// ---------- split oracle ----------

type SplitCase struct {
	V          GenVersion `json:"v"`
	Schema     string     `json:"schema"`
	PackageLeg bool       `json:"package_leg,omitempty"` // also build the five packages when the version is used verbatim
	Explicit   struct {
		Pre  string `json:"pre"`
		Meta string `json:"meta"`
	} `json:"explicit"`
}

func checkSplit(sc *SplitCase) []Violation {
	var vs vlist
	c := &BuildCase{Meta: Meta{Name: "ver", Arch: "amd64", Version: sc.V.Text, VersionSchema: sc.Schema, Prerelease: sc.Explicit.Pre, VersionMetadata: sc.Explicit.Meta}}
	cfg, err := c.ParseConfig("/nonexistent")
	if err != nil {
		vs.add("C14.split.parse-error", "", "configuration with version %q rejected: %v", sc.V.Text, err)
		return vs
	}
	got := [3]string{cfg.Version, cfg.Prerelease, cfg.VersionMetadata}
	var want [3]string
	if sc.Schema != "none" && sc.V.IsSem {
		want = [3]string{sc.V.Core, sc.V.Pre, sc.V.Meta}
		if sc.Explicit.Pre != "" {
			want[1] = sc.Explicit.Pre
		}
		if sc.Explicit.Meta != "" {
			want[2] = sc.Explicit.Meta
		}
	} else {
		want = [3]string{sc.V.Text, sc.Explicit.Pre, sc.Explicit.Meta}
	}
	if got != want {
		clause := "C14.split.semver"
		if !(sc.Schema != "none" && sc.V.IsSem) {
			clause = "C14.split.verbatim"
		}
		vs.add(clause, "", "version %q (schema %q, explicit prerelease %q, metadata %q) -> version %q prerelease %q metadata %q; expected %q %q %q",
			sc.V.Text, sc.Schema, sc.Explicit.Pre, sc.Explicit.Meta, got[0], got[1], got[2], want[0], want[1], want[2])
	}
	// a verbatim version is what every package states (no separate components configured, no blanks in the string)
	verbatim := !(sc.Schema != "none" && sc.V.IsSem)
	if verbatim && sc.Explicit.Pre == "" && sc.Explicit.Meta == "" && !strings.ContainsAny(sc.V.Text, " \t") && sc.PackageLeg {
		bc := versionOnly(c.Meta)
		bc.Formats = AllFormats
		bc.Meta.Name = "ver"
		err := bc.withRoot(func(root string) error {
			for _, f := range bc.Formats {
				out, err := bc.BuildOne(root, f)
				if err != nil {
					continue // a packager may refuse a string that is not a version in its format: loud, not wrong
				}
				d, err := Decode(f, out)
				if d == nil || err != nil {
					vs.add("C14.verbatim.decode", f, "%v", err)
					continue
				}
				dm, err := decodeMeta(f, d)
				if err != nil {
					continue
				}
				want := sc.V.Text
				got := dm.Version
				switch f {
				case "archlinux":
					want += "-1"
				case "apk":
					// apk may only append suffixes
					if strings.HasPrefix(got, want) {
						got = want
					}
				}
				if got != want {
					vs.add("C14.verbatim.package", f, "version %q (schema %q) is to be used verbatim, the %s package states %q", sc.V.Text, sc.Schema, f, dm.Version)
				}
			}
			return nil
		})
		if err != nil {
			panic(err)
		}
	}
	// WithDefaults applied again (as the CLI does on the Get() result) must be stable
	info, err := cfg.Get("deb")
	if err == nil {
		info = nfpm.WithDefaults(info)
		if again := [3]string{info.Version, info.Prerelease, info.VersionMetadata}; again != got {
			vs.add("C14.split.not-idempotent", "", "applying defaults twice changes the split of %q: %q -> %q", sc.V.Text, got, again)
		}
	}
	return vs
}

// ---------- comparison algorithms (harness ports) ----------

func dpkgOrder(c byte, end bool) int {
	switch {
	case end:
		return 0
	case c >= '0' && c <= '9':
		return 0
	case unicode.IsLetter(rune(c)) && c < 128:
		return int(c)
	case c == '~':
		return -1
	}
	return int(c) + 256
}

func isDigit(c byte) bool { return c >= '0' && c <= '9' }

// verrevcmp is a port of dpkg's lib/dpkg/version.c:verrevcmp.
func verrevcmp(a, b string) int {
	i, j := 0, 0
	for i < len(a) || j < len(b) {
		firstDiff := 0
		for (i < len(a) && !isDigit(a[i])) || (j < len(b) && !isDigit(b[j])) {
			var ac, bc int
			if i < len(a) {
				ac = dpkgOrder(a[i], false)
			}
			if j < len(b) {
				bc = dpkgOrder(b[j], false)
			}
			if ac != bc {
				return ac - bc
			}
			if i < len(a) {
				i++
			}
			if j < len(b) {
				j++
			}
		}
		for i < len(a) && a[i] == '0' {
			i++
		}
		for j < len(b) && b[j] == '0' {
			j++
		}
		for i < len(a) && j < len(b) && isDigit(a[i]) && isDigit(b[j]) {
			if firstDiff == 0 {
				firstDiff = int(a[i]) - int(b[j])
			}
			i++
			j++
		}
		if i < len(a) && isDigit(a[i]) {
			return 1
		}
		if j < len(b) && isDigit(b[j]) {
			return -1
		}
		if firstDiff != 0 {
			return firstDiff
		}
	}
	return 0
}

func splitDebVersion(v string) (epoch int64, upstream, revision string, err error) {
	if i := strings.IndexByte(v, ':'); i >= 0 {
		epoch, err = strconv.ParseInt(v[:i], 10, 64)
		if err != nil {
			return 0, "", "", fmt.Errorf("epoch in %q is not a number", v)
		}
		v = v[i+1:]
	}
	if i := strings.LastIndexByte(v, '-'); i >= 0 {
		upstream, revision = v[:i], v[i+1:]
		if revision == "" {
			// dpkg's parseversion: "revision number cannot be empty" - such a string has no place in dpkg's order
			return 0, "", "", fmt.Errorf("version %q: revision number is empty (dpkg refuses it)", v)
		}
	} else {
		upstream = v
	}
	return
}

func dpkgCompare(a, b string) (int, error) {
	ea, ua, ra, err := splitDebVersion(a)
	if err != nil {
		return 0, err
	}
	eb, ub, rb, err := splitDebVersion(b)
	if err != nil {
		return 0, err
	}
	if ea != eb {
		if ea < eb {
			return -1, nil
		}
		return 1, nil
	}
	if c := verrevcmp(ua, ub); c != 0 {
		return c, nil
	}
	return verrevcmp(ra, rb), nil
}

var haveDpkg = func() bool { _, err := exec.LookPath("dpkg"); return err == nil }()

// dpkgToolCompare asks the real dpkg. refused is dpkg's own complaint when it cannot parse one of the versions
// (exit status 2): such a string has no place in dpkg's order, which is a finding, not a missing second opinion.
func dpkgToolCompare(a, b string) (cmp int, ok bool, refused string) {
	if !haveDpkg {
		return 0, false, ""
	}
	run := func(op string) (bool, bool) {
		out, err := exec.Command("dpkg", "--compare-versions", a, op, b).CombinedOutput()
		if err == nil {
			return true, true
		}
		if ee, isExit := err.(*exec.ExitError); isExit && ee.ExitCode() == 1 {
			return false, true
		} else if isExit && ee.ExitCode() == 2 && refused == "" {
			refused = strings.TrimSpace(string(out))
		}
		return false, false
	}
	if lt, ok := run("lt"); ok && lt {
		return -1, true, ""
	} else if !ok {
		return 0, false, refused
	}
	if eq, ok := run("eq"); ok && eq {
		return 0, true, ""
	} else if !ok {
		return 0, false, refused
	}
	return 1, true, ""
}

// rpmvercmp is a port of rpm's rpmio/rpmvercmp.c (with '~' and '^').
func rpmvercmp(a, b string) int {
	if a == b {
		return 0
	}
	isAlnum := func(c byte) bool { return isDigit(c) || (c >= 'a' && c <= 'z') || (c >= 'A' && c <= 'Z') }
	isAlpha := func(c byte) bool { return (c >= 'a' && c <= 'z') || (c >= 'A' && c <= 'Z') }
	i, j := 0, 0
	for i < len(a) || j < len(b) {
		for i < len(a) && !isAlnum(a[i]) && a[i] != '~' && a[i] != '^' {
			i++
		}
		for j < len(b) && !isAlnum(b[j]) && b[j] != '~' && b[j] != '^' {
			j++
		}
		ta := i < len(a) && a[i] == '~'
		tb := j < len(b) && b[j] == '~'
		if ta || tb {
			if !ta {
				return 1
			}
			if !tb {
				return -1
			}
			i++
			j++
			continue
		}
		ca := i < len(a) && a[i] == '^'
		cb := j < len(b) && b[j] == '^'
		if ca || cb {
			if i >= len(a) {
				return -1
			}
			if j >= len(b) {
				return 1
			}
			if !ca {
				return 1
			}
			if !cb {
				return -1
			}
			i++
			j++
			continue
		}
		if i >= len(a) || j >= len(b) {
			break
		}
		si, sj := i, j
		numeric := isDigit(a[i])
		if numeric {
			for i < len(a) && isDigit(a[i]) {
				i++
			}
			for j < len(b) && isDigit(b[j]) {
				j++
			}
		} else {
			for i < len(a) && isAlpha(a[i]) {
				i++
			}
			for j < len(b) && isAlpha(b[j]) {
				j++
			}
		}
		sa, sb := a[si:i], b[sj:j]
		if sb == "" {
			if numeric {
				return 1
			}
			return -1
		}
		if numeric {
			sa = strings.TrimLeft(sa, "0")
			sb = strings.TrimLeft(sb, "0")
			if len(sa) != len(sb) {
				if len(sa) > len(sb) {
					return 1
				}
				return -1
			}
		}
		if c := strings.Compare(sa, sb); c != 0 {
			return c
		}
	}
	if i >= len(a) && j >= len(b) {
		return 0
	}
	if i < len(a) {
		return 1
	}
	return -1
}

type rpmEVR struct {
	E    uint64
	V, R string
}

func rpmCompare(a, b rpmEVR) int {
	if a.E != b.E {
		if a.E < b.E {
			return -1
		}
		return 1
	}
	if c := rpmvercmp(a.V, b.V); c != 0 {
		return c
	}
	return rpmvercmp(a.R, b.R)
}

// ---------- ordering oracle ----------

type OrderCase struct {
	Relation string `json:"relation"` // prerelease-before-release | numeric-order | epoch-dominates
	A        Meta   `json:"a"`        // must sort strictly before B
	B        Meta   `json:"b"`
}

func versionOnly(m Meta) *BuildCase {
	m.Name, m.Arch, m.Maintainer, m.Description = "ver", "amd64", "V <v@example.com>", "d"
	return &BuildCase{Meta: m, MTime: 1000000000, RPMBuildHost: "h", Formats: []string{"deb", "ipk", "rpm"}}
}

func decodedVersions(m Meta, vs *vlist) (deb, ipk string, rpm rpmEVR, ok bool) {
	c := versionOnly(m)
	ok = true
	err := c.withRoot(func(root string) error {
		b := buildAll(c, root, "C14", vs)
		for _, f := range c.Formats {
			d := b.decoded[f]
			if d == nil {
				ok = false
				continue
			}
			switch f {
			case "deb":
				deb, _ = d.Control.Get("Version")
			case "ipk":
				ipk, _ = d.Control.Get("Version")
			case "rpm":
				rpm.V, _ = d.RPM.Hdr.String(1001)
				rpm.R, _ = d.RPM.Hdr.String(1002)
				if e, has := d.RPM.Hdr.Ints(1003); has && len(e) == 1 {
					rpm.E = e[0]
				}
			}
		}
		return nil
	})
	if err != nil {
		panic(err)
	}
	return
}

func checkOrder(oc *OrderCase, useTool bool) []Violation {
	var vs vlist
	da, ia, ra, ok1 := decodedVersions(oc.A, &vs)
	db, ib, rb, ok2 := decodedVersions(oc.B, &vs)
	if !ok1 || !ok2 {
		return vs
	}
	for _, p := range []struct{ f, a, b string }{{"deb", da, db}, {"ipk", ia, ib}} {
		c, err := dpkgCompare(p.a, p.b)
		if err != nil {
			vs.add("C14.order.unparsable", p.f, "%v", err)
			continue
		}
		if useTool {
			tc, ok, refused := dpkgToolCompare(p.a, p.b)
			if refused != "" {
				vs.add("C14.order.unparsable", p.f, "dpkg itself refuses to compare %q with %q: %s", p.a, p.b, refused)
				continue
			}
			if ok {
				if sign(tc) != sign(c) {
					panic(fmt.Sprintf("harness port of verrevcmp disagrees with dpkg on %q vs %q: port %d, dpkg %d", p.a, p.b, c, tc))
				}
			}
		}
		if c >= 0 {
			vs.add("C14.order."+oc.Relation, p.f, "%q does not sort before %q under dpkg's comparison (%d)", p.a, p.b, c)
		}
	}
	if c := rpmCompare(ra, rb); c >= 0 {
		vs.add("C14.order."+oc.Relation, "rpm", "%d:%s-%s does not sort before %d:%s-%s under rpmvercmp (%d)", ra.E, ra.V, ra.R, rb.E, rb.V, rb.R, c)
	}
	return vs
}

func sign(x int) int {
	switch {
	case x < 0:
		return -1
	case x > 0:
		return 1
	}
	return 0
}

func genOrderCase(t *rapid.T) *OrderCase {
	oc := &OrderCase{Relation: rapid.SampledFrom([]string{"prerelease-before-release", "numeric-order", "epoch-dominates"}).Draw(t, "relation")}
	core := func(label string) [3]uint64 {
		return [3]uint64{genNum(t, label+".maj"), genNum(t, label+".min"), genNum(t, label+".pat")}
	}
	str := func(c [3]uint64) string { return fmt.Sprintf("%d.%d.%d", c[0], c[1], c[2]) }
	shared := Meta{}
	if rapid.Bool().Draw(t, "epoch?") {
		shared.Epoch = fmt.Sprint(rapid.IntRange(0, 5).Draw(t, "epoch"))
	}
	if rapid.Bool().Draw(t, "release?") {
		shared.Release = fmt.Sprint(rapid.IntRange(1, 20).Draw(t, "release"))
	}
	if rapid.Bool().Draw(t, "meta?") {
		shared.VersionMetadata = genDotted(t, "meta", metaIdent)
	}
	oc.A, oc.B = shared, shared
	switch oc.Relation {
	case "prerelease-before-release":
		c := str(core("v"))
		oc.A.Version, oc.B.Version = c, c
		oc.A.Prerelease = genDotted(t, "pre", preIdent)
	case "numeric-order":
		a, b := core("a"), core("b")
		if a == b {
			b[rapid.IntRange(0, 2).Draw(t, "bump")]++
		}
		less := a[0] < b[0] || (a[0] == b[0] && (a[1] < b[1] || (a[1] == b[1] && a[2] < b[2])))
		if !less {
			a, b = b, a
		}
		oc.A.Version, oc.B.Version = str(a), str(b)
		if rapid.Bool().Draw(t, "samepre?") {
			p := genDotted(t, "pre", preIdent)
			oc.A.Prerelease, oc.B.Prerelease = p, p
		}
	case "epoch-dominates":
		ea := rapid.IntRange(0, 5).Draw(t, "ea")
		eb := rapid.IntRange(ea+1, 9).Draw(t, "eb")
		oc.A.Epoch, oc.B.Epoch = fmt.Sprint(ea), fmt.Sprint(eb)
		if ea == 0 && rapid.Bool().Draw(t, "noepoch") {
			oc.A.Epoch = ""
		}
		oc.A.Version, oc.B.Version = str(core("a")), str(core("b"))
		if rapid.Bool().Draw(t, "prea?") {
			oc.A.Prerelease = genDotted(t, "prea", preIdent)
		}
		if rapid.Bool().Draw(t, "preb?") {
			oc.B.Prerelease = genDotted(t, "preb", preIdent)
		}
		if rapid.Bool().Draw(t, "relb?") {
			oc.B.Release = fmt.Sprint(rapid.IntRange(1, 20).Draw(t, "relb"))
		}
	}
	return oc
}

func nontrivialSplit(sc *SplitCase) bool {
	return strings.Contains(sc.V.Pre, ".") || strings.ContainsAny(sc.V.Pre, "-0123456789") || sc.V.Meta != "" || sc.V.NearHow != ""
}

func nontrivialOrder(oc *OrderCase) bool {
	p := oc.A.Prerelease + oc.B.Prerelease
	digitsDiffer := false
	pa, pb := strings.Split(oc.A.Version, "."), strings.Split(oc.B.Version, ".")
	for i := range pa {
		if i < len(pb) && pa[i] != pb[i] && len(pa[i]) != len(pb[i]) {
			digitsDiffer = true
		}
	}
	return strings.Contains(p, ".") || strings.ContainsAny(p, "-0123456789") || oc.A.VersionMetadata != "" || digitsDiffer
}

func TestC14(t *testing.T) {
	st := newStats("C14")
	defer st.Flush()
	st.Tools["dpkg --compare-versions"] = fmt.Sprint(haveDpkg)
	var rc struct {
		Split *SplitCase `json:"split"`
		Order *OrderCase `json:"order"`
	}
	if replayCase(&rc) {
		st.Record(&rc, true, "replay")
		if rc.Split != nil {
			st.Report(t, &rc, checkSplit(rc.Split))
		}
		if rc.Order != nil {
			st.Report(t, &rc, checkOrder(rc.Order, true))
		}
		return
	}
	splitsPerOrder := 25
	i := 0
	rapid.Check(t, func(rt *rapid.T) {
		for k := 0; k < splitsPerOrder; k++ {
			sc := &SplitCase{V: genVersion(rt, fmt.Sprintf("v%d", k)), Schema: rapid.SampledFrom([]string{"", "", "semver", "none"}).Draw(rt, fmt.Sprintf("schema%d", k))}
			if rapid.IntRange(0, 2).Draw(rt, fmt.Sprintf("xpre?%d", k)) == 0 {
				sc.Explicit.Pre = genDotted(rt, fmt.Sprintf("xpre%d", k), preIdent)
			}
			if rapid.IntRange(0, 2).Draw(rt, fmt.Sprintf("xmeta?%d", k)) == 0 {
				sc.Explicit.Meta = genDotted(rt, fmt.Sprintf("xmeta%d", k), metaIdent)
			}
			sc.PackageLeg = k%5 == 0
			labels := []string{"split", "schema:" + sc.Schema}
			if sc.PackageLeg && !(sc.Schema != "none" && sc.V.IsSem) {
				labels = append(labels, "verbatim-package-leg")
			}
			if sc.V.NearHow != "" {
				labels = append(labels, "near-miss:"+sc.V.NearHow)
			}
			st.Record(sc, nontrivialSplit(sc), labels...)
			st.Report(rt, map[string]any{"split": sc}, checkSplit(sc))
		}
		oc := genOrderCase(rt)
		i++
		useTool := thorough() || i%5 == 0
		labels := []string{"order", "relation:" + oc.Relation}
		if useTool && haveDpkg {
			labels = append(labels, "dpkg-tool-consulted")
		}
		st.Record(oc, nontrivialOrder(oc), labels...)
		st.Report(rt, map[string]any{"order": oc}, checkOrder(oc, useTool))
	})
}
