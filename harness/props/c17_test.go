package props

import (
	"bytes"
	"encoding/json"
	"fmt"
	"os"
	"os/exec"
	"path/filepath"
	"regexp"
	"sort"
	"strings"
	"testing"

	"gopkg.in/yaml.v3"
	"pgregory.net/rapid"
)

// ---------- validator for the JSON-schema subset nfpm's schema uses ----------

type schemaDoc struct {
	root map[string]any
	defs map[string]any
}

func loadSchema(b []byte) (*schemaDoc, error) {
	var root map[string]any
	if err := json.Unmarshal(b, &root); err != nil {
		return nil, err
	}
	defs, _ := root["$defs"].(map[string]any)
	return &schemaDoc{root: root, defs: defs}, nil
}

var knownSchemaKeywords = map[string]bool{"$schema": true, "$id": true, "$ref": true, "$defs": true, "properties": true, "additionalProperties": true,
	"type": true, "enum": true, "items": true, "required": true, "default": true, "examples": true, "format": true, "title": true, "description": true,
	"const": true, "if": true, "then": true, "else": true, "allOf": true, "anyOf": true, "oneOf": true, "not": true, "pattern": true,
	"minLength": true, "maxLength": true, "minItems": true, "maxItems": true, "minimum": true, "maximum": true, "minProperties": true, "maxProperties": true,
	"patternProperties": true, "propertyNames": true, "$comment": true, "deprecated": true, "readOnly": true, "writeOnly": true}

func (s *schemaDoc) ok(sch map[string]any, v any) bool {
	var errs []string
	s.validate(sch, v, "$", &errs)
	return len(errs) == 0
}

func toFloat(v any) (float64, bool) {
	switch x := v.(type) {
	case int:
		return float64(x), true
	case int64:
		return float64(x), true
	case uint64:
		return float64(x), true
	case float64:
		return x, true
	}
	return 0, false
}

// validateApplicators handles the composition and assertion keywords beyond the core subset.
func (s *schemaDoc) validateApplicators(sch map[string]any, v any, path string, errs *[]string) {
	if c, ok := sch["const"]; ok {
		if fmt.Sprint(c) != fmt.Sprint(v) || jsonType(c) != jsonType(v) {
			*errs = append(*errs, fmt.Sprintf("%s: value %v is not the constant %v", path, v, c))
		}
	}
	if cond, ok := sch["if"].(map[string]any); ok {
		branch := "else"
		if s.ok(cond, v) {
			branch = "then"
		}
		if b, ok := sch[branch].(map[string]any); ok {
			s.validate(b, v, path+"("+branch+")", errs)
		}
	}
	for _, sub := range asSchemas(sch["allOf"]) {
		s.validate(sub, v, path, errs)
	}
	if subs := asSchemas(sch["anyOf"]); len(subs) > 0 {
		n := 0
		for _, sub := range subs {
			if s.ok(sub, v) {
				n++
			}
		}
		if n == 0 {
			*errs = append(*errs, fmt.Sprintf("%s: matches none of the anyOf branches", path))
		}
	}
	if subs := asSchemas(sch["oneOf"]); len(subs) > 0 {
		n := 0
		for _, sub := range subs {
			if s.ok(sub, v) {
				n++
			}
		}
		if n != 1 {
			*errs = append(*errs, fmt.Sprintf("%s: matches %d of the oneOf branches", path, n))
		}
	}
	if sub, ok := sch["not"].(map[string]any); ok && s.ok(sub, v) {
		*errs = append(*errs, fmt.Sprintf("%s: matches the schema under not", path))
	}
	if str, ok := v.(string); ok {
		if p, ok := sch["pattern"].(string); ok {
			if re, err := regexp.Compile(p); err == nil && !re.MatchString(str) {
				*errs = append(*errs, fmt.Sprintf("%s: %q does not match pattern %s", path, str, p))
			}
		}
		if n, ok := toFloat(sch["minLength"]); ok && float64(len([]rune(str))) < n {
			*errs = append(*errs, fmt.Sprintf("%s: shorter than minLength", path))
		}
		if n, ok := toFloat(sch["maxLength"]); ok && float64(len([]rune(str))) > n {
			*errs = append(*errs, fmt.Sprintf("%s: longer than maxLength", path))
		}
	}
	if l, ok := v.([]any); ok {
		if n, ok := toFloat(sch["minItems"]); ok && float64(len(l)) < n {
			*errs = append(*errs, fmt.Sprintf("%s: fewer than minItems", path))
		}
		if n, ok := toFloat(sch["maxItems"]); ok && float64(len(l)) > n {
			*errs = append(*errs, fmt.Sprintf("%s: more than maxItems", path))
		}
	}
	if m, ok := v.(map[string]any); ok {
		if pn, ok := sch["propertyNames"].(map[string]any); ok {
			for _, k := range sortedKeys(m) {
				if !s.ok(pn, k) {
					*errs = append(*errs, fmt.Sprintf("%s: key %q is not an allowed property name", path, k))
				}
			}
		}
		if n, ok := toFloat(sch["minProperties"]); ok && float64(len(m)) < n {
			*errs = append(*errs, fmt.Sprintf("%s: fewer than minProperties", path))
		}
		if n, ok := toFloat(sch["maxProperties"]); ok && float64(len(m)) > n {
			*errs = append(*errs, fmt.Sprintf("%s: more than maxProperties", path))
		}
	}
	if f, ok := toFloat(v); ok {
		if n, ok := toFloat(sch["minimum"]); ok && f < n {
			*errs = append(*errs, fmt.Sprintf("%s: below minimum", path))
		}
		if n, ok := toFloat(sch["maximum"]); ok && f > n {
			*errs = append(*errs, fmt.Sprintf("%s: above maximum", path))
		}
	}
}

func asSchemas(v any) []map[string]any {
	var out []map[string]any
	if l, ok := v.([]any); ok {
		for _, e := range l {
			if m, ok := e.(map[string]any); ok {
				out = append(out, m)
			}
		}
	}
	return out
}

func (s *schemaDoc) resolve(sch map[string]any) map[string]any {
	for {
		ref, ok := sch["$ref"].(string)
		if !ok {
			return sch
		}
		name := strings.TrimPrefix(ref, "#/$defs/")
		next, ok := s.defs[name].(map[string]any)
		if !ok {
			panic("schema: dangling $ref " + ref)
		}
		sch = next
	}
}

func jsonType(v any) string {
	switch x := v.(type) {
	case nil:
		return "null"
	case bool:
		return "boolean"
	case string:
		return "string"
	case int, int64, uint64:
		return "integer"
	case float64:
		if x == float64(int64(x)) {
			return "integer"
		}
		return "number"
	case []any:
		return "array"
	case map[string]any:
		return "object"
	}
	return fmt.Sprintf("%T", v)
}

// validate returns the list of schema violations of v at path.
func (s *schemaDoc) validate(sch map[string]any, v any, path string, errs *[]string) {
	sch = s.resolve(sch)
	for k := range sch {
		if !knownSchemaKeywords[k] {
			panic("schema uses keyword the harness validator does not implement: " + k)
		}
	}
	if t, ok := sch["type"].(string); ok {
		jt := jsonType(v)
		if !(jt == t || (t == "number" && jt == "integer")) {
			*errs = append(*errs, fmt.Sprintf("%s: is %s, schema wants %s", path, jt, t))
			return
		}
	}
	if en, ok := sch["enum"].([]any); ok {
		found := false
		for _, e := range en {
			if fmt.Sprint(e) == fmt.Sprint(v) && jsonType(e) == jsonType(v) {
				found = true
			}
		}
		if !found {
			*errs = append(*errs, fmt.Sprintf("%s: value %q is not in enum %v", path, v, en))
		}
	}
	s.validateApplicators(sch, v, path, errs)
	switch x := v.(type) {
	case map[string]any:
		props, _ := sch["properties"].(map[string]any)
		patProps, _ := sch["patternProperties"].(map[string]any)
		for _, r := range asStrings(sch["required"]) {
			if _, ok := x[r]; !ok {
				*errs = append(*errs, fmt.Sprintf("%s: required key %q missing", path, r))
			}
		}
		for _, k := range sortedKeys(x) {
			if ps, ok := props[k].(map[string]any); ok {
				s.validate(ps, x[k], path+"."+k, errs)
				continue
			}
			matched := false
			for pat, ps := range patProps {
				if re, err := regexp.Compile(pat); err == nil && re.MatchString(k) {
					if pm, ok := ps.(map[string]any); ok {
						s.validate(pm, x[k], path+"."+k, errs)
					}
					matched = true
				}
			}
			if matched {
				continue
			}
			switch ap := sch["additionalProperties"].(type) {
			case bool:
				if !ap {
					*errs = append(*errs, fmt.Sprintf("%s: key %q is not allowed", path, k))
				}
			case map[string]any:
				s.validate(ap, x[k], path+"."+k, errs)
			}
		}
	case []any:
		if it, ok := sch["items"].(map[string]any); ok {
			for i, e := range x {
				s.validate(it, e, fmt.Sprintf("%s[%d]", path, i), errs)
			}
		}
	}
}

func asStrings(v any) []string {
	var out []string
	if l, ok := v.([]any); ok {
		for _, e := range l {
			out = append(out, fmt.Sprint(e))
		}
	}
	return out
}

// schemaKeyPaths lists the key paths the schema allows ("*" for free-form keys, "[]" for list elements).
func (s *schemaDoc) keyPaths() map[string]string {
	out := map[string]string{}
	var walk func(sch map[string]any, prefix []string, depth int)
	walk = func(sch map[string]any, prefix []string, depth int) {
		sch = s.resolve(sch)
		if depth > 12 {
			return
		}
		props, _ := sch["properties"].(map[string]any)
		for _, k := range sortedKeys(props) {
			ps := s.resolve(props[k].(map[string]any))
			p := append(append([]string(nil), prefix...), k)
			t, _ := ps["type"].(string)
			out[strings.Join(p, ".")] = t
			switch t {
			case "object":
				walk(ps, p, depth+1)
				if ap, ok := ps["additionalProperties"].(map[string]any); ok {
					aps := s.resolve(ap)
					pp := append(append([]string(nil), p...), "*")
					at, _ := aps["type"].(string)
					out[strings.Join(pp, ".")] = at
					if at == "object" {
						walk(aps, pp, depth+1)
					}
				}
			case "array":
				if it, ok := ps["items"].(map[string]any); ok {
					its := s.resolve(it)
					if it2, _ := its["type"].(string); it2 == "object" {
						walk(its, append(append([]string(nil), p...), "[]"), depth+1)
					}
				}
			}
		}
	}
	walk(s.root, nil, 0)
	return out
}

// yamlToJSONValue parses YAML text into the generic value a JSON validator sees.
func yamlToJSONValue(b []byte) (any, error) {
	var v any
	if err := yaml.Unmarshal(b, &v); err != nil {
		return nil, err
	}
	return normYAML(v), nil
}

func normYAML(v any) any {
	switch x := v.(type) {
	case map[string]any:
		for k, e := range x {
			x[k] = normYAML(e)
		}
		return x
	case map[any]any:
		m := map[string]any{}
		for k, e := range x {
			m[fmt.Sprint(k)] = normYAML(e)
		}
		return m
	case []any:
		for i := range x {
			x[i] = normYAML(x[i])
		}
		return x
	}
	return v
}

func emitSchema(t *testing.T) ([]byte, string) {
	bin := nfpmBinary()
	if bin == "" {
		t.Fatalf("VERIF_NFPM is not set")
	}
	out, err := exec.Command(bin, "jsonschema").Output()
	if err != nil {
		t.Fatalf("nfpm jsonschema: %v", err)
	}
	dir, err := os.MkdirTemp(scratchBase(), "schema")
	if err != nil {
		t.Fatal(err)
	}
	p := filepath.Join(dir, "schema.json")
	if o, err := exec.Command(bin, "jsonschema", "-o", p).CombinedOutput(); err != nil {
		t.Fatalf("nfpm jsonschema -o: %v: %s", err, o)
	}
	return out, p
}

// docEnums are the enumerated settings configuration.md documents.
var docEnums = []struct {
	Path   []string
	Values []string
	Build  []string // formats to build with the value (nil: parse + validate only)
}{
	{[]string{"contents", "[]", "type"}, []string{"", "file", "config", "config|noreplace", "config|missingok", "dir", "symlink", "tree", "ghost", "doc", "licence", "license", "readme"}, AllFormats},
	{[]string{"deb", "compression"}, []string{"gzip", "xz", "zstd", "none"}, []string{"deb"}},
	{[]string{"rpm", "compression"}, []string{"gzip", "lzma", "xz", "zstd"}, []string{"rpm"}},
	{[]string{"deb", "signature", "method"}, []string{"debsign", "dpkg-sig"}, nil},
	{[]string{"deb", "signature", "type"}, []string{"origin", "maint", "archive"}, nil},
	{[]string{"version_schema"}, []string{"semver", "none"}, AllFormats},
}

func checkEnumValue(s *schemaDoc, path []string, val string, build []string) []Violation {
	var vs vlist
	c := metaBaseCase()
	c.Meta = Meta{Name: "enum", Arch: "amd64", Version: "1.0.0", Maintainer: "V <v@example.com>", Description: "enum"}
	c.Tree = append(c.Tree, FNode{Rel: "src/d", Kind: "dir", Mode: 0o755, MTime: 900000000}, FNode{Rel: "src/d/x", Kind: "file", Size: 5, Seed: 3, Mode: 0o644, MTime: 900000000})
	switch strings.Join(path, ".") {
	case "contents.[].type":
		e := Entry{Type: val, Dst: "/opt/enum/x", Form: "single", Src: "src/f"}
		switch val {
		case "dir", "ghost":
			e.Src, e.Form = "", "none"
		case "symlink":
			e.Src, e.Form = "/target", "none"
		case "tree":
			e.Src, e.Form = "src/d", "tree"
		}
		c.Contents = append(c.Contents, e)
	case "deb.compression":
		c.DebCompression = val
	case "rpm.compression":
		c.RPMCompression = val
	case "version_schema":
		c.Meta.VersionSchema = val
	case "deb.signature.method":
		c.Extra = map[string]any{"deb": map[string]any{"signature": map[string]any{"method": val}}}
	case "deb.signature.type":
		c.Extra = map[string]any{"deb": map[string]any{"signature": map[string]any{"type": val}}}
	}
	label := fmt.Sprintf("%s=%q", strings.Join(path, "."), val)
	err := c.withRoot(func(root string) error {
		text := c.YAML(root)
		if _, err := parseText(string(text), noEnv); err != nil {
			vs.add("C17.enum.parser-rejects", "", "documented value %s is rejected by the parser: %v", label, err)
			return nil
		}
		for _, f := range build {
			if _, err := c.BuildOne(root, f); err != nil {
				vs.add("C17.enum.packager-rejects", f, "documented value %s cannot be built: %v", label, err)
			}
		}
		v, err := yamlToJSONValue(text)
		if err != nil {
			return err
		}
		var errs []string
		s.validate(s.root, v, "$", &errs)
		if len(errs) > 0 {
			vs.add("C17.enum.schema-rejects", "", "documented value %s parses and builds but the schema rejects it: %s", label, strings.Join(errs, "; "))
		}
		return nil
	})
	if err != nil {
		panic(err)
	}
	return vs
}

func reflectedPathSet() map[string]bool {
	out := map[string]bool{}
	for _, kp := range configKeyPaths() {
		segs := append([]string(nil), kp.Segs...)
		for i := range segs {
			if i > 0 && segs[i-1] == "overrides" {
				segs[i] = "*"
			}
		}
		out[strings.Join(segs, ".")] = true
		if kp.Leaf && kp.Type.Kind().String() == "map" {
			out[strings.Join(segs, ".")+".*"] = true
		}
	}
	return out
}

func TestC17(t *testing.T) {
	st := newStats("C17")
	defer st.Flush()
	emitted, written := emitSchema(t)
	defer os.RemoveAll(filepath.Dir(written))
	s, err := loadSchema(emitted)
	if err != nil {
		t.Fatalf("emitted schema is not JSON: %v", err)
	}
	var rc struct {
		Case *BuildCase `json:"case"`
		Enum *struct {
			Path  []string `json:"path"`
			Value string   `json:"value"`
			Build []string `json:"build"`
		} `json:"enum"`
	}
	if replayCase(&rc) {
		st.Record(&rc, true, "replay")
		if rc.Enum != nil {
			st.Report(t, &rc, checkEnumValue(s, rc.Enum.Path, rc.Enum.Value, rc.Enum.Build))
		}
		if rc.Case != nil {
			st.Report(t, &rc, checkSchemaCase(s, rc.Case))
		}
		return
	}
	collect := func(c any, vs vlist, first *vlist) {
		if left := st.Filter(vs); len(left) > 0 && len(*first) == 0 {
			*first = left
			st.saveReplay(c, left)
		}
	}
	var first vlist
	// (4) published copy identical to what the command writes
	{
		var vs vlist
		pub, err := os.ReadFile(filepath.Join(repoDir(), "www/docs/static/schema.json"))
		wr, err2 := os.ReadFile(written)
		if err != nil || err2 != nil {
			vs.add("C17.published.unreadable", "", "%v %v", err, err2)
		} else if !bytes.Equal(pub, wr) {
			vs.add("C17.published.differs", "", "www/docs/static/schema.json (%d bytes) differs from the output of `nfpm jsonschema -o` (%d bytes)", len(pub), len(wr))
		}
		if !bytes.Equal(bytes.TrimSpace(emitted), bytes.TrimSpace(wr)) {
			vs.add("C17.stdout-vs-file", "", "`nfpm jsonschema` and `nfpm jsonschema -o file` emit different schemas")
		}
		st.Record("published-vs-emitted", true, "published")
		collect(map[string]any{"published": true}, vs, &first)
	}
	// (2) key paths: schema == reflection (== strict parser, see C16 for the parser side)
	{
		sp := s.keyPaths()
		rp := reflectedPathSet()
		var vs vlist
		for _, p := range sortedKeys(sp) {
			if !rp[p] {
				vs.add("C17.paths.schema-only", "", "the schema allows key path %s which the configuration structs do not define", p)
			}
		}
		for _, p := range sortedKeys(rp) {
			if _, ok := sp[p]; !ok {
				vs.add("C17.paths.parser-only", "", "the parser defines key path %s which the schema does not allow", p)
			}
		}
		st.Exhaustive["key paths compared (schema)"] = len(sp)
		st.Exhaustive["key paths compared (reflection)"] = len(rp)
		collect(map[string]any{"paths": true}, vs, &first)
		// every reflected key path: its control document parses (C16) and must validate
		n := 0
		for _, kp := range configKeyPaths() {
			doc := docWith(kp.Segs, kp.sample())
			b, _ := yaml.Marshal(doc)
			if _, err := parseText(string(b), noEnv); err != nil {
				continue
			}
			v, _ := yamlToJSONValue(b)
			var all, errs []string
			s.validate(s.root, v, "$", &all)
			for _, e := range all {
				if !strings.Contains(e, "is not in enum") { // the sample value is arbitrary; only the key path is under test here
					errs = append(errs, e)
				}
			}
			var vs vlist
			if len(errs) > 0 {
				vs.add("C17.paths.accepted-doc-invalid", "", "a document using key path %s parses but does not validate: %s", kp, strings.Join(errs, "; "))
			}
			st.Record(map[string]string{"key-path-doc": kp.String()}, len(kp.Segs) >= 2, "key-path-doc")
			n++
			collect(map[string]any{"text": string(b)}, vs, &first)
		}
		st.Exhaustive["key-path control documents validated"] = n
	}
	// (2c) parser-accepted key paths are schema-allowed: any misspelled document the parser lets through must also validate
	{
		n, agree := 0, 0
		forEachMisspelling(func(kp keyPath, segs []string, doc map[string]any) {
			b, _ := yaml.Marshal(doc)
			n++
			_, perr := parseText(string(b), noEnv)
			v, _ := yamlToJSONValue(b)
			var all, errs []string
			s.validate(s.root, v, "$", &all)
			for _, e := range all {
				if !strings.Contains(e, "is not in enum") {
					errs = append(errs, e)
				}
			}
			var vs vlist
			switch {
			case perr == nil && len(errs) > 0:
				vs.add("C17.paths.parser-accepts-schema-rejects", "", "the parser accepts key path %s but the schema does not allow it: %s", strings.Join(segs, "."), strings.Join(errs, "; "))
			case perr != nil && len(errs) == 0:
				vs.add("C17.paths.schema-allows-parser-rejects", "", "the schema allows key path %s but the strict parser rejects it: %v", strings.Join(segs, "."), perr)
			default:
				agree++
			}
			collect(map[string]any{"text": string(b)}, vs, &first)
		})
		st.Exhaustive["misspelled key paths on which schema and parser must agree"] = n
		st.Label("schema-parser-agreement-on-misspellings", agree)
		st.Record("misspelling-agreement", true, "misspelling-agreement")
	}
	// (3) documented enumerated values
	{
		n := 0
		for _, de := range docEnums {
			for _, v := range de.Values {
				vs := checkEnumValue(s, de.Path, v, de.Build)
				st.Record(map[string]string{"enum": strings.Join(de.Path, "."), "value": v}, true, "enum-value")
				n++
				collect(map[string]any{"enum": map[string]any{"path": de.Path, "value": v, "build": de.Build}}, vs, &first)
			}
		}
		st.Exhaustive["documented enumerated values"] = n
	}
	if len(first) > 0 {
		t.Fatalf("property C17 violated: %v", first)
	}
	// (1) generated valid configurations validate
	var diffDocs [][]byte
	defer func() {
		if thorough() && len(diffDocs) > 0 {
			validatorDifferential(t, st, emitted, s, diffDocs)
		}
	}()
	rapid.Check(t, func(rt *rapid.T) {
		c := genBuildCase(rt, c01Opts)
		genFullMeta(rt, c)
		genSimpleScripts(rt, c)
		nblocks := 0
		for _, k := range []string{"deb", "rpm", "ipk", "archlinux", "apk", "scripts", "contents"} {
			if _, ok := c.ConfigMap("/r")[k]; ok {
				nblocks++
			}
		}
		nondefaultEnum := (c.DebCompression != "" && c.DebCompression != "gzip") || (c.RPMCompression != "" && !strings.HasPrefix(c.RPMCompression, "gzip"))
		for _, e := range c.Contents {
			if e.Type != "" {
				nondefaultEnum = true
			}
		}
		if thorough() && len(diffDocs) < 400 {
			if v, err := yamlToJSONValue(c.YAML("/r")); err == nil {
				if b, err := json.Marshal(v); err == nil {
					diffDocs = append(diffDocs, b)
					// and a deliberately invalid sibling, so that the differential sees both verdicts
					if m, ok := v.(map[string]any); ok {
						m["not_a_key"] = 1
						if b2, err := json.Marshal(m); err == nil {
							diffDocs = append(diffDocs, b2)
						}
					}
				}
			}
		}
		st.Record(c, nondefaultEnum || nblocks >= 3, fmt.Sprintf("blocks:%d", nblocks))
		st.Report(rt, map[string]any{"case": c}, checkSchemaCase(s, c))
	})
}

// validatorDifferential cross-checks the harness validator against python jsonschema (when the tooling venv is there).
func validatorDifferential(t *testing.T, st *Stats, schema []byte, s *schemaDoc, docs [][]byte) {
	py, err := exec.LookPath("python3-vt")
	if err != nil {
		st.Tools["python jsonschema"] = "absent"
		return
	}
	dir, err := os.MkdirTemp(scratchBase(), "jsd")
	if err != nil {
		return
	}
	defer os.RemoveAll(dir)
	_ = os.WriteFile(filepath.Join(dir, "schema.json"), schema, 0o644)
	var lines []string
	for _, d := range docs {
		lines = append(lines, string(d))
	}
	_ = os.WriteFile(filepath.Join(dir, "docs.jsonl"), []byte(strings.Join(lines, "\n")), 0o644)
	script := "import json,sys,jsonschema\ns=json.load(open(sys.argv[1]))\nv=jsonschema.Draft202012Validator(s)\nprint(''.join('1' if v.is_valid(json.loads(l)) else '0' for l in open(sys.argv[2]) if l.strip()))\n"
	out, err := exec.Command(py, "-c", script, filepath.Join(dir, "schema.json"), filepath.Join(dir, "docs.jsonl")).Output()
	if err != nil {
		st.Tools["python jsonschema"] = "failed: " + err.Error()
		return
	}
	verdicts := strings.TrimSpace(string(out))
	if len(verdicts) != len(docs) {
		st.Tools["python jsonschema"] = fmt.Sprintf("returned %d verdicts for %d documents", len(verdicts), len(docs))
		return
	}
	agree := 0
	for i, d := range docs {
		var v any
		_ = json.Unmarshal(d, &v)
		var errs []string
		s.validate(s.root, v, "$", &errs)
		mine := len(errs) == 0
		if mine != (verdicts[i] == '1') {
			t.Fatalf("harness schema validator disagrees with python jsonschema on document %s: harness valid=%v (%v), python valid=%v", d, mine, errs, verdicts[i] == '1')
		}
		agree++
	}
	st.Tools["python jsonschema"] = fmt.Sprintf("agrees with the harness validator on %d documents", agree)
}

func checkSchemaCase(s *schemaDoc, c *BuildCase) []Violation {
	var vs vlist
	err := c.withRoot(func(root string) error {
		text := c.YAML(root)
		if _, err := parseText(string(text), noEnv); err != nil {
			return nil // not an accepted document: outside the premise
		}
		for _, f := range c.formats() {
			if _, err := c.BuildOne(root, f); err != nil {
				return nil // packagers cannot build it: outside the premise
			}
		}
		v, err := yamlToJSONValue(text)
		if err != nil {
			return err
		}
		var errs []string
		s.validate(s.root, v, "$", &errs)
		sort.Strings(errs)
		if len(errs) > 0 {
			if len(errs) > 5 {
				errs = errs[:5]
			}
			vs.add("C17.valid-config-rejected", "", "configuration is accepted by the parser and all packagers but not by the schema: %s", strings.Join(errs, "; "))
		}
		return nil
	})
	if err != nil {
		panic(err)
	}
	return vs
}
