package props

// Reference planner (M-PLAN) and expected payload tree (M-TREE), written from
// www/docs/configuration.md and the text of properties C01/C05 — not from
// files.PrepareForPackager.

import (
	"fmt"
	"path"
	"regexp"
	"sort"
	"strings"
)

type ExpNode struct {
	Path     string `json:"path"`
	Kind     string `json:"kind"` // file | dir | symlink | ghost
	Implied  bool   `json:"implied,omitempty"`
	FromTree bool   `json:"from_tree,omitempty"`
	SrcRel   string `json:"src,omitempty"`
	Perm     int64  `json:"perm"`
	Owner    string `json:"owner"`
	Group    string `json:"group"`
	MTime    int64  `json:"mtime,omitempty"`     // 0 = not determined by the case (e.g. package mtime unset for generated entries)
	MTimeAlt int64  `json:"mtime_alt,omitempty"` // also acceptable: the on-disk mtime rounded to the nearest second
	Target   string `json:"target,omitempty"`
	Entry    int    `json:"entry"`
	EType    string `json:"etype,omitempty"`
}

type PlanError struct {
	Collision bool
	Msg       string
}

func (e *PlanError) Error() string { return e.Msg }

type treeIndex struct {
	byRel map[string]*FNode
	rels  []string
}

func indexTree(tree []FNode) *treeIndex {
	ti := &treeIndex{byRel: map[string]*FNode{}}
	for i := range tree {
		r := path.Clean(tree[i].Rel)
		ti.byRel[r] = &tree[i]
		ti.rels = append(ti.rels, r)
	}
	sort.Strings(ti.rels)
	return ti
}

// under returns all nodes strictly below dir (clean rel path).
func (ti *treeIndex) under(dir string) []*FNode {
	var out []*FNode
	pre := dir + "/"
	for _, r := range ti.rels {
		if strings.HasPrefix(r, pre) {
			out = append(out, ti.byRel[r])
		}
	}
	return out
}

// isDirLike: node is a directory, or a symlink whose target resolves (within the
// tree spec) to a directory.
func (ti *treeIndex) resolvesToDir(n *FNode) bool {
	if n.Kind == "dir" {
		return true
	}
	if n.Kind != "symlink" {
		return false
	}
	t := n.Target
	if !path.IsAbs(t) {
		t = path.Join(path.Dir(n.Rel), t)
	}
	if m, ok := ti.byRel[path.Clean(t)]; ok {
		return m.Kind == "dir"
	}
	return false
}

func (ti *treeIndex) resolves(n *FNode) bool {
	if n.Kind != "symlink" {
		return true
	}
	t := n.Target
	if path.IsAbs(t) {
		return false // absolute targets are never inside the case root by construction
	}
	_, ok := ti.byRel[path.Clean(path.Join(path.Dir(n.Rel), t))]
	return ok
}

var globMeta = regexp.MustCompile(`[*?\[\]{}\\]`)

func hasGlobMeta(s string) bool { return globMeta.MatchString(s) }

// globToRegexp translates the documented glob syntax (fileglob / gobwas):
//
//   - any run of non-separator characters      ** any run of characters
//     ?  one non-separator character               {a,b} alternatives
//     [abc] / [a-z] / [!a] character class        \x literal x
func globToRegexp(p string) (*regexp.Regexp, error) {
	var b strings.Builder
	b.WriteString("^")
	rs := []rune(p)
	depth := 0
	for i := 0; i < len(rs); i++ {
		c := rs[i]
		switch {
		case c == '*':
			if i+1 < len(rs) && rs[i+1] == '*' {
				b.WriteString("(?s:.*)")
				i++
			} else {
				b.WriteString("[^/]*")
			}
		case c == '?':
			b.WriteString("[^/]")
		case c == '{':
			depth++
			b.WriteString("(?:")
		case c == '}' && depth > 0:
			depth--
			b.WriteString(")")
		case c == ',' && depth > 0:
			b.WriteString("|")
		case c == '[':
			j := i + 1
			neg := false
			if j < len(rs) && rs[j] == '!' {
				neg = true
				j++
			}
			k := j
			for k < len(rs) && rs[k] != ']' {
				k++
			}
			if k >= len(rs) {
				return nil, fmt.Errorf("unterminated class in %q", p)
			}
			b.WriteString("[")
			if neg {
				b.WriteString("^")
			}
			for _, r := range rs[j:k] {
				if r == '-' {
					b.WriteRune(r)
				} else {
					b.WriteString(regexp.QuoteMeta(string(r)))
				}
			}
			b.WriteString("]")
			i = k
		case c == '\\' && i+1 < len(rs):
			b.WriteString(regexp.QuoteMeta(string(rs[i+1])))
			i++
		default:
			b.WriteString(regexp.QuoteMeta(string(c)))
		}
	}
	b.WriteString("$")
	return regexp.Compile(b.String())
}

// expandSource lists the files (regular files and non-directory symlinks) a file-like
// entry's src denotes, as rel paths, and whether src is a glob.
func (ti *treeIndex) expandSource(src string, disableGlobbing bool) (matches []string, isGlob bool, err error) {
	clean := path.Clean(src)
	isGlob = !disableGlobbing && hasGlobMeta(src)
	if !isGlob {
		n, ok := ti.byRel[clean]
		if !ok {
			return nil, false, fmt.Errorf("source %q does not exist in the case tree", src)
		}
		if ti.resolvesToDir(n) && n.Kind == "dir" {
			for _, m := range ti.under(clean) {
				if m.Kind == "dir" {
					continue
				}
				matches = append(matches, path.Clean(m.Rel))
			}
			return matches, false, nil
		}
		return []string{clean}, false, nil
	}
	re, err := globToRegexp(clean)
	if err != nil {
		return nil, true, err
	}
	for _, r := range ti.rels {
		n := ti.byRel[r]
		if n.Kind == "dir" {
			continue
		}
		hit := re.MatchString(r)
		for d := path.Dir(r); !hit && d != "." && d != "/"; d = path.Dir(d) {
			if dn, ok := ti.byRel[d]; ok && dn.Kind == "dir" && re.MatchString(d) {
				hit = true
			}
		}
		if hit {
			matches = append(matches, r)
		}
	}
	return matches, true, nil
}

// deepestCommonDir of a non-empty list of file paths.
func deepestCommonDir(files []string) string {
	common := strings.Split(path.Dir(files[0]), "/")
	for _, f := range files[1:] {
		parts := strings.Split(path.Dir(f), "/")
		n := 0
		for n < len(common) && n < len(parts) && common[n] == parts[n] {
			n++
		}
		common = common[:n]
	}
	if len(common) == 0 {
		return "."
	}
	return strings.Join(common, "/")
}

func cleanAbs(p string) string { return path.Clean("/" + p) }

func effUmask(c *BuildCase) uint32 {
	if c.Umask == 0 {
		return 0o002
	}
	return c.Umask
}

type planner struct {
	c      *BuildCase
	ti     *treeIndex
	format string
	nodes  map[string]*ExpNode
	order  []string
}

func (p *planner) put(n *ExpNode) error {
	if old, ok := p.nodes[n.Path]; ok {
		return &PlanError{Collision: true, Msg: fmt.Sprintf("entries %d (%s) and %d (%s) both occupy %s", old.Entry, old.Kind, n.Entry, n.Kind, n.Path)}
	}
	p.nodes[n.Path] = n
	p.order = append(p.order, n.Path)
	return nil
}

func (p *planner) fileAttrs(e *Entry, idx int, srcRel string, n *ExpNode) {
	fi := e.FI
	n.Owner, n.Group = "root", "root"
	if fi != nil {
		if fi.Owner != "" {
			n.Owner = fi.Owner
		}
		if fi.Group != "" {
			n.Group = fi.Group
		}
	}
	src := p.ti.byRel[srcRel]
	// mode: explicit verbatim, otherwise source mode minus umask
	if fi != nil && fi.Mode != 0 {
		n.Perm = int64(fi.Mode & 0o7777)
	} else if src != nil {
		n.Perm = int64(src.Mode &^ effUmask(p.c) & 0o7777)
	}
	switch {
	case fi != nil && fi.MTime != 0:
		n.MTime = fi.MTime
	case p.c.MTime != 0:
		n.MTime = p.c.MTime
	case src != nil:
		n.MTime = src.MTime
		if src.NS >= 500000000 {
			n.MTimeAlt = src.MTime + 1
		}
	}
}

// Relevant reports whether entry e is addressed to format f and its type exists there.
func Relevant(e *Entry, f string) bool {
	if e.Packager != "" && e.Packager != f {
		return false
	}
	if e.isRPMOnly() && f != "rpm" {
		return false
	}
	return true
}

// Plan computes the expected payload tree of the case for one format.
func Plan(c *BuildCase, format string) (map[string]*ExpNode, error) {
	p := &planner{c: c, ti: indexTree(c.Tree), format: format, nodes: map[string]*ExpNode{}}
	for i := range c.Contents {
		e := &c.Contents[i]
		if !Relevant(e, format) {
			continue
		}
		switch {
		case e.Type == "dir":
			n := &ExpNode{Path: cleanAbs(e.Dst), Kind: "dir", Entry: i, EType: e.Type, Owner: "root", Group: "root", Perm: 0o755}
			if e.Src != "" {
				// documented: "a directory in the build environment can optionally be provided in the 'src' field in
				// order copy mtime and mode from that directory"
				if sn := p.ti.byRel[path.Clean(e.Src)]; sn != nil && sn.Kind == "dir" {
					n.Perm = int64(sn.Mode &^ effUmask(p.c) & 0o7777)
				}
			}
			if e.FI != nil {
				if e.FI.Owner != "" {
					n.Owner = e.FI.Owner
				}
				if e.FI.Group != "" {
					n.Group = e.FI.Group
				}
				if e.FI.Mode != 0 {
					n.Perm = int64(e.FI.Mode & 0o7777)
				}
			}
			if err := p.put(n); err != nil {
				return nil, err
			}
		case e.Type == "symlink":
			n := &ExpNode{Path: cleanAbs(e.Dst), Kind: "symlink", Target: e.Src, Entry: i, EType: e.Type}
			if err := p.put(n); err != nil {
				return nil, err
			}
		case e.Type == "ghost":
			n := &ExpNode{Path: cleanAbs(e.Dst), Kind: "ghost", Entry: i, EType: e.Type, Owner: "root", Group: "root", Perm: 0o644}
			if e.FI != nil {
				if e.FI.Owner != "" {
					n.Owner = e.FI.Owner
				}
				if e.FI.Group != "" {
					n.Group = e.FI.Group
				}
				if e.FI.Mode != 0 {
					n.Perm = int64(e.FI.Mode & 0o7777)
				}
			}
			if err := p.put(n); err != nil {
				return nil, err
			}
		case e.isRPMOnly(): // doc, licence, license, readme: one file at the exact destination
			rel := path.Clean(e.Src)
			n := &ExpNode{Path: cleanAbs(e.Dst), Kind: "file", SrcRel: rel, Entry: i, EType: e.Type}
			p.fileAttrs(e, i, rel, n)
			if err := p.put(n); err != nil {
				return nil, err
			}
		case e.Type == "tree":
			if err := p.addTree(e, i); err != nil {
				return nil, err
			}
		case e.isFileLike():
			matches, isGlob, err := p.ti.expandSource(e.Src, c.DisableGlobbing)
			if err != nil {
				return nil, err
			}
			if len(matches) == 0 {
				return nil, &PlanError{Msg: fmt.Sprintf("entry %d: src %q matches nothing", i, e.Src)}
			}
			base := path.Clean(e.Src)
			if isGlob {
				base = deepestCommonDir(matches)
			} else if sn := p.ti.byRel[base]; sn != nil && sn.Kind != "dir" {
				base = "" // single file: exact destination
			}
			for _, m := range matches {
				var dst string
				switch {
				case strings.HasSuffix(e.Dst, "/"):
					dst = path.Join(e.Dst, path.Base(m))
				case base == "":
					dst = e.Dst
				default:
					dst = path.Join(e.Dst, strings.TrimPrefix(m, base+"/"))
				}
				src := p.ti.byRel[m]
				n := &ExpNode{Path: cleanAbs(dst), Entry: i, EType: e.Type, SrcRel: m}
				if src.Kind == "symlink" {
					n.Kind = "symlink"
					n.Target = src.Target
				} else {
					n.Kind = "file"
					p.fileAttrs(e, i, m, n)
				}
				if err := p.put(n); err != nil {
					return nil, err
				}
			}
		default:
			return nil, &PlanError{Msg: fmt.Sprintf("entry %d: invalid content type %q", i, e.Type)}
		}
	}
	// a non-directory may not be an ancestor of anything; add implied parents
	for _, pth := range append([]string(nil), p.order...) {
		for d := path.Dir(pth); d != "/" && d != "."; d = path.Dir(d) {
			if n, ok := p.nodes[d]; ok {
				if n.Kind != "dir" {
					return nil, &PlanError{Collision: true, Msg: fmt.Sprintf("%s lies beneath non-directory %s (%s)", pth, d, n.Kind)}
				}
				continue
			}
			p.nodes[d] = &ExpNode{Path: d, Kind: "dir", Implied: true, Entry: -1, Owner: "root", Group: "root", Perm: 0o755, MTime: c.MTime}
		}
	}
	if format == "rpm" {
		for k, n := range p.nodes {
			if n.Implied {
				delete(p.nodes, k)
			}
		}
	}
	return p.nodes, nil
}

func (p *planner) addTree(e *Entry, idx int) error {
	root := path.Clean(e.Src)
	rn, ok := p.ti.byRel[root]
	if !ok || rn.Kind != "dir" {
		return &PlanError{Msg: fmt.Sprintf("entry %d: tree source %q is not a directory of the case tree", idx, e.Src)}
	}
	um := effUmask(p.c)
	nodes := append([]*FNode{rn}, p.ti.under(root)...)
	for _, sn := range nodes {
		rel := strings.TrimPrefix(strings.TrimPrefix(path.Clean(sn.Rel), root), "/")
		dst := cleanAbs(path.Join(e.Dst, rel))
		n := &ExpNode{Path: dst, Entry: idx, EType: e.Type, FromTree: true, Owner: "root", Group: "root", SrcRel: path.Clean(sn.Rel)}
		if e.FI != nil {
			if e.FI.Owner != "" {
				n.Owner = e.FI.Owner
			}
			if e.FI.Group != "" {
				n.Group = e.FI.Group
			}
		}
		switch sn.Kind {
		case "dir":
			n.Kind = "dir"
			n.Perm = int64(sn.Mode &^ um & 0o7777)
			if e.FI != nil && e.FI.Mode != 0 {
				n.Perm = int64(e.FI.Mode & 0o7777)
			}
		case "symlink":
			n.Kind = "symlink"
			n.Target = sn.Target
		default:
			n.Kind = "file"
			n.Perm = int64(sn.Mode &^ um & 0o7777)
			if e.FI != nil && e.FI.Mode != 0 {
				n.Perm = int64(e.FI.Mode & 0o7777)
			}
			switch {
			case e.FI != nil && e.FI.MTime != 0:
				n.MTime = e.FI.MTime // declared for the tree: holds for every file below it, like owner, group and mode
			case p.c.MTime != 0:
				n.MTime = p.c.MTime
			default:
				n.MTime = sn.MTime
				if sn.NS >= 500000000 {
					n.MTimeAlt = sn.MTime + 1
				}
			}
		}
		if dst == "/" {
			continue
		}
		if err := p.put(n); err != nil {
			return err
		}
	}
	return nil
}
