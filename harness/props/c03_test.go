package props

import (
	"crypto/md5"
	"crypto/sha1"
	"encoding/hex"
	"fmt"
	"strconv"
	"strings"
	"testing"

	"pgregory.net/rapid"
)

func md5hex(b []byte) string  { s := md5.Sum(b); return hex.EncodeToString(s[:]) }
func sha1hex(b []byte) string { s := sha1.Sum(b); return hex.EncodeToString(s[:]) }

// installedSizeOK: Installed-Size is an estimate in KiB of the payload. Accept
// anything between the sum of sizes rounded down and the per-entry rounded-up sum
// plus one KiB per entry (dpkg's own convention).
func installedSizeOK(got int64, files []PEntry, entries int) (lo, hi int64, ok bool) {
	var sum, up int64
	for _, e := range files {
		sum += int64(len(e.Data))
		up += (int64(len(e.Data)) + 1023) / 1024
	}
	lo, hi = sum/1024, up+int64(entries)
	return lo, hi, got >= lo && got <= hi
}

func regularFiles(d *Decoded) []PEntry {
	var out []PEntry
	for _, e := range d.Payload {
		if e.Kind == "file" && !e.Ghost {
			out = append(out, e)
		}
	}
	return out
}

func checkC03Format(f string, d *Decoded, vs *vlist) {
	files := regularFiles(d)
	var total int64
	for _, e := range files {
		total += int64(len(e.Data))
	}
	switch f {
	case "deb", "ipk":
		if f == "deb" {
			m, ok := d.ControlMember("md5sums")
			if !ok {
				vs.add("C03.deb.md5sums-missing", f, "no md5sums member")
			} else {
				lines := strings.Split(strings.TrimSuffix(string(m.Data), "\n"), "\n")
				if len(m.Data) == 0 {
					lines = nil
				}
				got := map[string]string{}
				for _, l := range lines {
					parts := strings.SplitN(l, "  ", 2)
					if len(parts) != 2 || len(parts[0]) != 32 {
						vs.add("C03.deb.md5sums-syntax", f, "malformed md5sums line %q", l)
						continue
					}
					name := absOf(parts[1])
					if _, dup := got[name]; dup {
						vs.add("C03.deb.md5sums-duplicate", f, "two md5sums lines for %s", name)
					}
					got[name] = parts[0]
				}
				for _, e := range files {
					sum, ok := got[e.Abs]
					if !ok {
						vs.add("C03.deb.md5sums-missing-file", f, "no md5sums line for payload file %s", e.Abs)
						continue
					}
					if sum != md5hex(e.Data) {
						vs.add("C03.deb.md5sums-wrong", f, "md5sums says %s for %s, shipped bytes hash to %s", sum, e.Abs, md5hex(e.Data))
					}
					delete(got, e.Abs)
				}
				for n := range got {
					vs.add("C03.deb.md5sums-extra", f, "md5sums line for %s which is not a regular payload file", n)
				}
			}
		}
		v, ok := d.Control.Get("Installed-Size")
		if !ok {
			if f == "ipk" && total/1024 == 0 {
				break // ipk: absent <=> 0
			}
			if f == "ipk" {
				lo, hi, _ := installedSizeOK(0, files, len(d.Payload))
				if lo > 0 {
					vs.add("C03.ipk.installed-size", f, "Installed-Size absent but payload is %d bytes (expected %d..%d KiB)", total, lo, hi)
				}
				break
			}
			vs.add("C03.deb.installed-size", f, "Installed-Size missing")
			break
		}
		n, err := strconv.ParseInt(strings.TrimSpace(v), 10, 64)
		if err != nil {
			vs.add("C03."+f+".installed-size", f, "Installed-Size %q is not a number", v)
			break
		}
		if lo, hi, ok := installedSizeOK(n, files, len(d.Payload)); !ok {
			vs.add("C03."+f+".installed-size", f, "Installed-Size %d KiB, payload of %d bytes in %d entries calls for %d..%d KiB", n, total, len(d.Payload), lo, hi)
		}
	case "apk":
		dh, ok := kvOne(d.PkgInfo, "datahash")
		if !ok {
			vs.add("C03.apk.datahash", f, "datahash missing or repeated")
		} else if dh != shaOf(d.ApkDataRaw) {
			vs.add("C03.apk.datahash", f, "datahash %s, data segment as shipped hashes to %s", dh, shaOf(d.ApkDataRaw))
		}
		sz, ok := kvOne(d.PkgInfo, "size")
		if n, err := strconv.ParseInt(sz, 10, 64); !ok || err != nil || n != total {
			vs.add("C03.apk.size", f, "size = %q, regular files total %d bytes", sz, total)
		}
		for _, e := range files {
			if e.Digest == "" {
				vs.add("C03.apk.checksum-missing", f, "%s has no APK-TOOLS.checksum.SHA1 record", e.Abs)
			} else if e.Digest != sha1hex(e.Data) {
				vs.add("C03.apk.checksum-wrong", f, "%s: PAX checksum %s, content hashes to %s", e.Abs, e.Digest, sha1hex(e.Data))
			}
		}
		// a symbolic link's checksum, where one is stored, is the digest of its target string: that is what apk
		// computes for the installed link (apk_fileinfo_get) and compares in `apk audit`
		for _, e := range d.Payload {
			if e.Kind == "symlink" && e.Digest != "" && e.Digest != sha1hex([]byte(e.Link)) {
				vs.add("C03.apk.symlink-checksum", f, "%s -> %s: PAX checksum %s, the link target hashes to %s", e.Abs, e.Link, e.Digest, sha1hex([]byte(e.Link)))
			}
		}
		for _, e := range d.ControlTar {
			if e.Name == ".PKGINFO" {
				continue
			}
			if v, ok := e.PAX["APK-TOOLS.checksum.SHA1"]; ok && v != sha1hex(e.Data) {
				vs.add("C03.apk.checksum-wrong", f, "control %s: PAX checksum %s, content hashes to %s", e.Name, v, sha1hex(e.Data))
			}
		}
	case "archlinux":
		if d.MtreeErr != nil {
			vs.add("C03.arch.mtree-malformed", f, ".MTREE is not valid mtree(5): %v", d.MtreeErr)
			break
		}
		if len(d.Mtree) == 0 || d.Mtree[0].Path != "./.PKGINFO" {
			vs.add("C03.arch.mtree-pkginfo-first", f, "first .MTREE entry is not ./.PKGINFO")
			break
		}
		var pkginfo *TarEntry
		for i := range d.ArchTar {
			if d.ArchTar[i].Name == ".PKGINFO" {
				pkginfo = &d.ArchTar[i]
			}
		}
		type want struct {
			typ, link  string
			mode, time int64
			data       []byte
		}
		wants := map[string]want{}
		if pkginfo != nil {
			wants["/.PKGINFO"] = want{typ: "file", mode: pkginfo.Mode, time: pkginfo.MTime, data: pkginfo.Data}
		}
		for _, e := range d.Payload {
			w := want{mode: e.Mode, time: e.MTime}
			switch e.Kind {
			case "file":
				w.typ, w.data = "file", e.Data
			case "dir":
				w.typ = "dir"
			case "symlink":
				w.typ, w.link = "link", e.Link
				w.mode = -1
			}
			wants[e.Abs] = w
		}
		seen := map[string]bool{}
		for _, ml := range d.Mtree {
			p := absOf(ml.Path)
			if seen[p] {
				vs.add("C03.arch.mtree-duplicate", f, ".MTREE lists %s twice", p)
			}
			seen[p] = true
			w, ok := wants[p]
			if !ok {
				vs.add("C03.arch.mtree-extra", f, ".MTREE lists %s which is not in the package", p)
				continue
			}
			if ml.KW["type"] != w.typ {
				vs.add("C03.arch.mtree-type", f, "%s: type=%s, tar entry is %s", p, ml.KW["type"], w.typ)
			}
			if w.mode >= 0 {
				if m, err := strconv.ParseInt(ml.KW["mode"], 8, 64); err != nil || m != w.mode {
					vs.add("C03.arch.mtree-mode", f, "%s: mode=%s, tar entry has %o", p, ml.KW["mode"], w.mode)
				}
			}
			if tf, err := strconv.ParseFloat(ml.KW["time"], 64); err != nil || int64(tf) != w.time {
				vs.add("C03.arch.mtree-time", f, "%s: time=%s, tar entry has %d", p, ml.KW["time"], w.time)
			}
			if w.typ == "file" {
				if n, err := strconv.ParseInt(ml.KW["size"], 10, 64); err != nil || n != int64(len(w.data)) {
					vs.add("C03.arch.mtree-size", f, "%s: size=%s, shipped %d bytes", p, ml.KW["size"], len(w.data))
				}
				if ml.KW["md5digest"] != md5hex(w.data) {
					vs.add("C03.arch.mtree-md5", f, "%s: md5digest=%s, content hashes to %s", p, ml.KW["md5digest"], md5hex(w.data))
				}
				if ml.KW["sha256digest"] != shaOf(w.data) {
					vs.add("C03.arch.mtree-sha256", f, "%s: sha256digest=%s, content hashes to %s", p, ml.KW["sha256digest"], shaOf(w.data))
				}
			}
			if w.typ == "link" && ml.KW["link"] != w.link {
				vs.add("C03.arch.mtree-link", f, "%s: link=%q, tar entry links to %q", p, ml.KW["link"], w.link)
			}
		}
		for p := range wants {
			if !seen[p] {
				vs.add("C03.arch.mtree-missing", f, "%s is in the package but not in .MTREE", p)
			}
		}
		sz, _ := kvOne(d.PkgInfo, "size")
		if total == 0 && sz == "" {
			// a zero size is written as an absent key
		} else if n, err := strconv.ParseInt(sz, 10, 64); err != nil || n != total {
			vs.add("C03.arch.pkginfo-size", f, ".PKGINFO size = %q, regular files total %d bytes", sz, total)
		}
	case "rpm":
		r := d.RPM
		if v, ok := r.Sig.String(273); !ok || v != shaOf(r.Hdr.Raw) {
			vs.add("C03.rpm.header-sha256", f, "signature tag SHA256 = %q, header as shipped hashes to %s", v, shaOf(r.Hdr.Raw))
		}
		if v, ok := r.Sig.Ints(1000); !ok || len(v) != 1 || int(v[0]) != len(r.Hdr.Raw)+len(r.Payload) {
			vs.add("C03.rpm.sigsize", f, "SIGSIZE %v, header+payload are %d bytes", v, len(r.Hdr.Raw)+len(r.Payload))
		}
		if v, ok := r.Hdr.Strings(5092); !ok || len(v) != 1 || v[0] != shaOf(r.Payload) {
			vs.add("C03.rpm.payload-digest", f, "PAYLOADDIGEST %v, compressed payload as shipped hashes to %s", v, shaOf(r.Payload))
		}
		if v, ok := r.Hdr.Ints(5093); ok && (len(v) != 1 || v[0] != 8) {
			vs.add("C03.rpm.payload-digest-algo", f, "PAYLOADDIGESTALGO %v, digest is SHA-256 (8)", v)
		}
		var sumSizes int64
		for _, e := range d.Payload {
			if e.Kind == "file" {
				if !e.Ghost {
					if e.Size != int64(len(e.Data)) {
						vs.add("C03.rpm.filesize", f, "%s: FILESIZES %d, payload carries %d bytes", e.Abs, e.Size, len(e.Data))
					}
					if e.Digest != shaOf(e.Data) {
						vs.add("C03.rpm.filedigest", f, "%s: FILEDIGESTS %s, content hashes to %s", e.Abs, e.Digest, shaOf(e.Data))
					}
					sumSizes += int64(len(e.Data))
				}
			}
			if e.Kind == "symlink" {
				sumSizes += int64(len(e.Link))
			}
		}
		if len(d.Payload) > 0 {
			if v, ok := r.Hdr.Ints(5011); ok {
				for _, a := range v {
					if a != 8 {
						vs.add("C03.rpm.filedigest-algo", f, "FILEDIGESTALGO %d, digests are SHA-256 (8)", a)
						break
					}
				}
			}
		}
		pl, _, err := r.DecompressPayload()
		if err == nil {
			accept := map[int64]bool{sumSizes: true, int64(len(pl)): true}
			var onlyFiles int64
			for _, e := range regularFiles(d) {
				onlyFiles += int64(len(e.Data))
			}
			accept[onlyFiles] = true
			if v, ok := r.Hdr.Ints(1009); !ok || len(v) != 1 || !accept[int64(v[0])] {
				vs.add("C03.rpm.size", f, "SIZE %v, files total %d bytes (cpio archive %d bytes)", v, onlyFiles, len(pl))
			}
			if v, ok := r.Sig.Ints(1007); !ok || len(v) != 1 || !accept[int64(v[0])] {
				vs.add("C03.rpm.payloadsize", f, "signature PAYLOADSIZE %v, files total %d bytes (cpio archive %d bytes)", v, onlyFiles, len(pl))
			}
		}
	}
}

func checkC03(c *BuildCase) []Violation {
	var vs vlist
	err := c.withRoot(func(root string) error {
		b := buildAll(c, root, "C03", &vs)
		for _, f := range c.formats() {
			if d := b.decoded[f]; d != nil {
				checkC03Format(f, d, &vs)
			}
		}
		if len(vs) == 0 && c.Again {
			// history: the same paths are packaged again in this process after every file was rewritten with new
			// bytes of the same length and its times put back; what the package says about itself must describe
			// what it ships now
			c2 := rewriteSources(c, root)
			c2.Again = false
			b2 := buildAll(c2, root, "C03", &vs)
			for _, f := range c2.formats() {
				if d := b2.decoded[f]; d != nil {
					var again vlist
					checkC03Format(f, d, &again)
					for _, v := range again {
						v.Detail = "second packaging of the same paths after an equal-length rewrite: " + v.Detail
						vs = append(vs, v)
					}
				}
			}
		}
		return nil
	})
	if err != nil {
		panic(err)
	}
	return vs
}

func nontrivialC03(c *BuildCase) bool {
	n := 0
	seeds := map[string]bool{}
	big := false
	for _, t := range c.Tree {
		if t.Kind == "file" && strings.HasPrefix(t.Rel, "src/") {
			n++
			seeds[fmt.Sprint(t.Size, ":", t.Seed)] = true
			if t.Size > 128<<10 {
				big = true
			}
		}
	}
	return len(seeds) >= 2 || big || len(c.Contents) == 0
}

func TestC03(t *testing.T) {
	st := newStats("C03")
	defer st.Flush()
	var rc BuildCase
	if replayCase(&rc) {
		st.Record(&rc, true, "replay")
		st.Report(t, &rc, checkC03(&rc))
		return
	}
	rapid.Check(t, func(rt *rapid.T) {
		c := genBuildCase(rt, c01Opts)
		if rapid.IntRange(0, 5).Draw(rt, "changelog?") == 0 {
			addChangelog(c, 2)
		}
		c.Again = rapid.IntRange(0, 2).Draw(rt, "again") == 0
		labels, _, _ := classifyBuildCase(c)
		if c.Again {
			labels = append(labels, "packaged-again-after-equal-length-rewrite")
		}
		if len(c.Contents) == 0 {
			labels = append(labels, "empty-payload")
		}
		if c.Changelog != "" {
			labels = append(labels, "changelog")
		}
		st.Record(c, nontrivialC03(c), labels...)
		st.Report(rt, c, checkC03(c))
	})
}
