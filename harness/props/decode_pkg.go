package props

import (
	"archive/tar"
	"bufio"
	"bytes"
	"crypto/sha256"
	"encoding/hex"
	"fmt"
	"path"
	"sort"
	"strconv"
	"strings"
)

// PEntry is one payload entry of a decoded package in a format-neutral shape.
type PEntry struct {
	Stored string // name exactly as stored in the archive
	Abs    string // cleaned absolute path
	Kind   string // "file" | "dir" | "symlink" | "other"
	Mode   int64  // numeric mode as stored (tar mode field / rpm FILEMODES incl. type bits)
	Owner  string
	Group  string
	MTime  int64
	Size   int64
	Data   []byte
	Link   string
	Flags  uint32 // rpm FILEFLAGS
	Ghost  bool   // rpm: listed in header without payload
	Digest string // format-specific stored per-file digest (apk sha1 / rpm sha256)
	PAX    map[string]string
}

func (e PEntry) Perm() int64 { return e.Mode & 0o7777 }

func (e PEntry) Sha() string {
	s := sha256.Sum256(e.Data)
	return hex.EncodeToString(s[:])
}

type Decoded struct {
	Format  string
	Payload []PEntry

	// --- deb / ipk ---
	Ar          []ArMember
	OuterTar    []TarEntry // ipk
	ControlTar  []TarEntry
	ControlRaw  []byte // control.tar.gz as stored
	DataRaw     []byte // data.tar.* as stored
	DataName    string
	DataTarRaw  []byte // decompressed data tar
	Control     *Deb822
	ControlText string
	SigMember   *ArMember

	// --- apk ---
	ApkMembers []GzipMember
	ApkSig     []TarEntry
	ApkSigRaw  []byte
	ApkCtlRaw  []byte // compressed control segment as shipped
	ApkDataRaw []byte // compressed data segment as shipped
	ApkCtlTar  []byte
	ApkDataTar []byte
	PkgInfo    []KV

	// --- arch ---
	ArchTar   []TarEntry
	ArchRaw   []byte // decompressed outer tar
	Mtree     []MtreeLine
	MtreeRaw  []byte
	MtreeGzip []GzipMember
	MtreeText string
	MtreeErr  error // .MTREE could not be parsed per mtree(5); payload decoding continues
	Install   string
	HasInst   bool

	// --- rpm ---
	RPM  *RPMFile
	Cpio []CpioEntry

	// every timestamp found at any nesting level, with a description
	Times []TimeAt
}

type TimeAt struct {
	Where string
	T     int64
}

type KV struct{ K, V string }

func kvAll(kvs []KV, k string) []string {
	var out []string
	for _, kv := range kvs {
		if kv.K == k {
			out = append(out, kv.V)
		}
	}
	return out
}

func kvOne(kvs []KV, k string) (string, bool) {
	v := kvAll(kvs, k)
	if len(v) != 1 {
		return "", false
	}
	return v[0], true
}

// ---------- deb822 ----------

type Deb822 struct {
	Fields []KV // in order; value with continuation lines joined by "\n" (leading space removed)
}

func (d *Deb822) Get(k string) (string, bool) {
	n := 0
	var v string
	for _, f := range d.Fields {
		if strings.EqualFold(f.K, k) {
			v = f.V
			n++
		}
	}
	return v, n == 1
}

func (d *Deb822) Count(k string) int {
	n := 0
	for _, f := range d.Fields {
		if strings.EqualFold(f.K, k) {
			n++
		}
	}
	return n
}

// ParseDeb822 parses a single control stanza per deb-control(5).
func ParseDeb822(s string) (*Deb822, error) {
	d := &Deb822{}
	sc := bufio.NewScanner(strings.NewReader(s))
	sc.Buffer(make([]byte, 1<<20), 1<<26)
	ln := 0
	for sc.Scan() {
		ln++
		line := sc.Text()
		if line == "" {
			return d, fmt.Errorf("deb822: blank line %d inside stanza", ln)
		}
		if line[0] == ' ' || line[0] == '\t' {
			if len(d.Fields) == 0 {
				return d, fmt.Errorf("deb822: continuation line %d before any field", ln)
			}
			if strings.TrimSpace(line) == "" {
				return d, fmt.Errorf("deb822: line %d consists of blanks only (dpkg: blank line in value of field %s)", ln, d.Fields[len(d.Fields)-1].K)
			}
			d.Fields[len(d.Fields)-1].V += "\n" + line[1:]
			continue
		}
		i := strings.IndexByte(line, ':')
		if i <= 0 {
			return d, fmt.Errorf("deb822: line %d is not a field: %q", ln, line)
		}
		k := line[:i]
		if strings.ContainsAny(k, " \t") {
			return d, fmt.Errorf("deb822: field name with blanks in line %d: %q", ln, line)
		}
		d.Fields = append(d.Fields, KV{k, strings.TrimLeft(line[i+1:], " \t")})
	}
	return d, nil
}

// Deb822Description recovers the logical description from a Description field value:
// continuation lines " ." are blank lines.
func Deb822Description(v string) []string {
	lines := strings.Split(v, "\n")
	for i := 1; i < len(lines); i++ {
		if lines[i] == "." {
			lines[i] = ""
		}
	}
	return lines
}

// ---------- helpers ----------

func absOf(stored string) string {
	return path.Clean("/" + stored)
}

func tarKind(tf byte) string {
	switch tf {
	case tar.TypeReg, tar.TypeRegA:
		return "file"
	case tar.TypeDir:
		return "dir"
	case tar.TypeSymlink:
		return "symlink"
	}
	return "other"
}

func tarToPayload(es []TarEntry) []PEntry {
	out := make([]PEntry, 0, len(es))
	for _, e := range es {
		p := PEntry{
			Stored: e.Name, Abs: absOf(e.Name), Kind: tarKind(e.Typeflag), Mode: e.Mode,
			Owner: e.Uname, Group: e.Gname, MTime: e.MTime, Size: e.Size, Data: e.Data, Link: e.Linkname, PAX: e.PAX,
		}
		if v, ok := e.PAX["APK-TOOLS.checksum.SHA1"]; ok {
			p.Digest = v
		}
		out = append(out, p)
	}
	return out
}

func (d *Decoded) addTarTimes(where string, es []TarEntry) {
	for _, e := range es {
		d.Times = append(d.Times, TimeAt{where + ":" + e.Name + ":mtime", e.MTime})
		if e.ATime != 0 {
			d.Times = append(d.Times, TimeAt{where + ":" + e.Name + ":atime", e.ATime})
		}
		if e.CTime != 0 {
			d.Times = append(d.Times, TimeAt{where + ":" + e.Name + ":ctime", e.CTime})
		}
		for k, v := range e.PAX {
			if k == "mtime" || k == "atime" || k == "ctime" {
				f, err := strconv.ParseFloat(v, 64)
				if err == nil {
					d.Times = append(d.Times, TimeAt{where + ":" + e.Name + ":pax." + k, int64(f)})
				}
			}
		}
	}
}

func (d *Decoded) addGzipTimes(where string, ms []GzipMember) {
	for i, m := range ms {
		d.Times = append(d.Times, TimeAt{fmt.Sprintf("%s:gzip[%d].MTIME", where, i), m.MTime})
	}
}

func decompressByName(name string, b []byte) ([]byte, []GzipMember, error) {
	switch {
	case strings.HasSuffix(name, ".gz"):
		d, ms, err := Gunzip(b)
		return d, ms, err
	case strings.HasSuffix(name, ".xz"):
		d, err := Unxz(b)
		return d, nil, err
	case strings.HasSuffix(name, ".zst"):
		d, err := Unzstd(b)
		return d, nil, err
	case strings.HasSuffix(name, ".tar"):
		return b, nil, nil
	}
	return nil, nil, fmt.Errorf("unknown compression for member %q", name)
}

// ---------- deb ----------

func DecodeDeb(b []byte) (*Decoded, error) {
	d := &Decoded{Format: "deb"}
	ms, err := ParseAr(b)
	if err != nil {
		return nil, err
	}
	d.Ar = ms
	for _, m := range ms {
		d.Times = append(d.Times, TimeAt{"ar:" + m.Name, m.MTime})
	}
	if len(ms) < 3 {
		return d, fmt.Errorf("deb: only %d ar members", len(ms))
	}
	if ms[1].Name != "control.tar.gz" {
		return d, fmt.Errorf("deb: second member is %q", ms[1].Name)
	}
	d.ControlRaw = ms[1].Data
	ct, gms, err := Gunzip(ms[1].Data)
	if err != nil {
		return d, fmt.Errorf("deb: control.tar.gz: %w", err)
	}
	d.addGzipTimes("control.tar.gz", gms)
	d.ControlTar, err = ParseTar(ct)
	if err != nil {
		return d, fmt.Errorf("deb: control tar: %w", err)
	}
	d.addTarTimes("control", d.ControlTar)
	d.DataName = ms[2].Name
	d.DataRaw = ms[2].Data
	dt, gms2, err := decompressByName(ms[2].Name, ms[2].Data)
	if err != nil {
		return d, fmt.Errorf("deb: %s: %w", ms[2].Name, err)
	}
	d.addGzipTimes(ms[2].Name, gms2)
	d.DataTarRaw = dt
	es, err := ParseTar(dt)
	if err != nil {
		return d, fmt.Errorf("deb: data tar: %w", err)
	}
	d.addTarTimes("data", es)
	d.Payload = tarToPayload(es)
	// nested gzip payload files (changelog.Debian.gz) carry a gzip header of their own
	for _, e := range es {
		if strings.HasSuffix(e.Name, "changelog.Debian.gz") && len(e.Data) > 10 {
			if _, cms, err := Gunzip(e.Data); err == nil {
				d.addGzipTimes("data:"+e.Name, cms)
			}
		}
	}
	if len(ms) > 3 {
		d.SigMember = &ms[3]
	}
	for _, e := range d.ControlTar {
		if absOf(e.Name) == "/control" {
			d.ControlText = string(e.Data)
			d.Control, err = ParseDeb822(d.ControlText)
			if err != nil {
				return d, err
			}
		}
	}
	if d.Control == nil {
		return d, fmt.Errorf("deb: no control file in control tar")
	}
	return d, nil
}

func (d *Decoded) ControlMember(name string) (*TarEntry, bool) {
	for i := range d.ControlTar {
		if absOf(d.ControlTar[i].Name) == "/"+name {
			return &d.ControlTar[i], true
		}
	}
	return nil, false
}

// ---------- ipk ----------

func DecodeIPK(b []byte) (*Decoded, error) {
	d := &Decoded{Format: "ipk"}
	outer, gms, err := Gunzip(b)
	if err != nil {
		return nil, fmt.Errorf("ipk: outer gzip: %w", err)
	}
	d.addGzipTimes("outer", gms)
	d.OuterTar, err = ParseTar(outer)
	if err != nil {
		return d, fmt.Errorf("ipk: outer tar: %w", err)
	}
	d.addTarTimes("outer", d.OuterTar)
	for _, e := range d.OuterTar {
		switch absOf(e.Name) {
		case "/control.tar.gz":
			d.ControlRaw = e.Data
			ct, g, err := Gunzip(e.Data)
			if err != nil {
				return d, fmt.Errorf("ipk: control.tar.gz: %w", err)
			}
			d.addGzipTimes("control.tar.gz", g)
			d.ControlTar, err = ParseTar(ct)
			if err != nil {
				return d, err
			}
			d.addTarTimes("control", d.ControlTar)
		case "/data.tar.gz":
			d.DataRaw = e.Data
			d.DataName = "data.tar.gz"
			dt, g, err := Gunzip(e.Data)
			if err != nil {
				return d, fmt.Errorf("ipk: data.tar.gz: %w", err)
			}
			d.addGzipTimes("data.tar.gz", g)
			d.DataTarRaw = dt
			es, err := ParseTar(dt)
			if err != nil {
				return d, err
			}
			d.addTarTimes("data", es)
			d.Payload = tarToPayload(es)
		}
	}
	for _, e := range d.ControlTar {
		if absOf(e.Name) == "/control" {
			d.ControlText = string(e.Data)
			d.Control, err = ParseDeb822(d.ControlText)
			if err != nil {
				return d, err
			}
		}
	}
	if d.Control == nil {
		return d, fmt.Errorf("ipk: no control file")
	}
	return d, nil
}

// ---------- apk ----------

func parsePkgInfo(s string) []KV {
	var out []KV
	for _, line := range strings.Split(s, "\n") {
		if line == "" || strings.HasPrefix(line, "#") {
			continue
		}
		i := strings.Index(line, " = ")
		if i < 0 {
			// continuation of a multi-line value (apk pkgdesc)
			if len(out) > 0 {
				out[len(out)-1].V += "\n" + line
			}
			continue
		}
		out = append(out, KV{line[:i], line[i+3:]})
	}
	return out
}

func DecodeAPK(b []byte) (*Decoded, error) {
	d := &Decoded{Format: "apk"}
	ms, err := SplitGzipMembers(b)
	if err != nil {
		return nil, err
	}
	d.ApkMembers = ms
	d.addGzipTimes("apk", ms)
	if len(ms) != 2 && len(ms) != 3 {
		return d, fmt.Errorf("apk: %d gzip members, want 2 or 3", len(ms))
	}
	i := 0
	if len(ms) == 3 {
		d.ApkSigRaw = ms[0].Raw
		d.ApkSig, err = ParseTar(ms[0].Data)
		if err != nil {
			return d, fmt.Errorf("apk: signature segment: %w", err)
		}
		d.addTarTimes("sig", d.ApkSig)
		i = 1
	}
	d.ApkCtlRaw = ms[i].Raw
	d.ApkCtlTar = ms[i].Data
	d.ControlTar, err = ParseTar(ms[i].Data)
	if err != nil {
		return d, fmt.Errorf("apk: control segment: %w", err)
	}
	d.addTarTimes("control", d.ControlTar)
	d.ApkDataRaw = ms[i+1].Raw
	d.ApkDataTar = ms[i+1].Data
	es, err := ParseTar(ms[i+1].Data)
	if err != nil {
		return d, fmt.Errorf("apk: data segment: %w", err)
	}
	d.addTarTimes("data", es)
	d.Payload = tarToPayload(es)
	for _, e := range d.ControlTar {
		if e.Name == ".PKGINFO" {
			d.ControlText = string(e.Data)
			d.PkgInfo = parsePkgInfo(d.ControlText)
		}
	}
	return d, nil
}

// ---------- archlinux ----------

type MtreeLine struct {
	Path string // unescaped, as written (starts with ./)
	KW   map[string]string
	Raw  string
}

// unvis decodes mtree(5) path escapes (\ooo octal and a few named ones).
func unvis(s string) (string, error) {
	var out []byte
	for i := 0; i < len(s); i++ {
		c := s[i]
		if c != '\\' {
			out = append(out, c)
			continue
		}
		if i+3 < len(s) && isOct(s[i+1]) && isOct(s[i+2]) && isOct(s[i+3]) {
			v, _ := strconv.ParseUint(s[i+1:i+4], 8, 8)
			out = append(out, byte(v))
			i += 3
			continue
		}
		if i+1 < len(s) {
			switch s[i+1] {
			case 's':
				out = append(out, ' ')
			case 't':
				out = append(out, '\t')
			case 'n':
				out = append(out, '\n')
			case '\\':
				out = append(out, '\\')
			case '#':
				out = append(out, '#')
			default:
				return "", fmt.Errorf("mtree: bad escape in %q", s)
			}
			i++
			continue
		}
		return "", fmt.Errorf("mtree: dangling backslash in %q", s)
	}
	return string(out), nil
}

func isOct(c byte) bool { return c >= '0' && c <= '7' }

// ParseMtree parses the subset of mtree(5) used by pacman: one entry per line,
// first word the (escaped) path, the rest keyword=value separated by blanks.
func ParseMtree(s string) ([]MtreeLine, error) {
	var out []MtreeLine
	lines := strings.Split(s, "\n")
	if len(lines) == 0 || lines[0] != "#mtree" {
		return nil, fmt.Errorf("mtree: missing #mtree signature")
	}
	for _, line := range lines[1:] {
		if line == "" || strings.HasPrefix(line, "#") {
			continue
		}
		if strings.HasPrefix(line, "/set") || strings.HasPrefix(line, "/unset") {
			continue
		}
		words := strings.Fields(line)
		p, err := unvis(words[0])
		if err != nil {
			return out, err
		}
		ml := MtreeLine{Path: p, KW: map[string]string{}, Raw: line}
		for _, w := range words[1:] {
			i := strings.IndexByte(w, '=')
			if i <= 0 {
				return out, fmt.Errorf("mtree: word %q of line %q is not keyword=value", w, line)
			}
			k := w[:i]
			if !knownMtreeKeyword[k] {
				return out, fmt.Errorf("mtree: unknown keyword %q in line %q", k, line)
			}
			if _, dup := ml.KW[k]; dup {
				return out, fmt.Errorf("mtree: duplicate keyword %q in line %q", k, line)
			}
			v, err := unvis(w[i+1:])
			if err != nil {
				return out, err
			}
			ml.KW[k] = v
		}
		out = append(out, ml)
	}
	return out, nil
}

var knownMtreeKeyword = map[string]bool{
	"time": true, "mode": true, "size": true, "type": true, "md5digest": true, "sha256digest": true,
	"link": true, "uid": true, "gid": true, "uname": true, "gname": true, "md5": true, "sha256": true,
	"nlink": true, "flags": true, "cksum": true, "device": true, "ignore": true, "optional": true,
}

func DecodeArch(b []byte) (*Decoded, error) {
	d := &Decoded{Format: "archlinux"}
	raw, err := Unzstd(b)
	if err != nil {
		return nil, fmt.Errorf("archlinux: zstd: %w", err)
	}
	d.ArchRaw = raw
	es, err := ParseTar(raw)
	if err != nil {
		return d, fmt.Errorf("archlinux: tar: %w", err)
	}
	d.ArchTar = es
	d.addTarTimes("pkg", es)
	var payload []TarEntry
	for _, e := range es {
		switch e.Name {
		case ".PKGINFO":
			d.ControlText = string(e.Data)
			d.PkgInfo = parsePkgInfo(d.ControlText)
		case ".MTREE":
			d.MtreeRaw = e.Data
			txt, gms, err := Gunzip(e.Data)
			if err != nil {
				return d, fmt.Errorf("archlinux: .MTREE gzip: %w", err)
			}
			d.MtreeGzip = gms
			d.addGzipTimes(".MTREE", gms)
			d.MtreeText = string(txt)
			d.Mtree, d.MtreeErr = ParseMtree(strings.TrimRight(string(txt), "\n"))
			for _, ml := range d.Mtree {
				if t, ok := ml.KW["time"]; ok {
					f, err := strconv.ParseFloat(t, 64)
					if err == nil {
						d.Times = append(d.Times, TimeAt{".MTREE:" + ml.Path, int64(f)})
					}
				}
			}
		case ".INSTALL":
			d.Install = string(e.Data)
			d.HasInst = true
		default:
			payload = append(payload, e)
		}
	}
	d.Payload = tarToPayload(payload)
	if bd, ok := kvOne(d.PkgInfo, "builddate"); ok {
		if v, err := strconv.ParseInt(bd, 10, 64); err == nil {
			d.Times = append(d.Times, TimeAt{".PKGINFO:builddate", v})
		}
	}
	return d, nil
}

// ---------- rpm ----------

func DecodeRPM(b []byte) (*Decoded, error) {
	d := &Decoded{Format: "rpm"}
	r, err := ParseRPM(b)
	if err != nil {
		return nil, err
	}
	d.RPM = r
	pl, comp, err := r.DecompressPayload()
	if err != nil {
		return d, fmt.Errorf("rpm: payload (%s): %w", comp, err)
	}
	if comp == "gzip" {
		if _, gms, err := Gunzip(r.Payload); err == nil {
			d.addGzipTimes("payload", gms)
		}
	}
	d.Cpio, err = ParseCpioNewc(pl)
	if err != nil {
		return d, err
	}
	for _, c := range d.Cpio {
		d.Times = append(d.Times, TimeAt{"cpio:" + c.Name, int64(c.MTime)})
	}
	h := &r.Hdr
	if bt, ok := h.Ints(1006); ok && len(bt) == 1 {
		d.Times = append(d.Times, TimeAt{"hdr:BUILDTIME", int64(bt[0])})
	}
	base, _ := h.Strings(1117)
	dirs, _ := h.Strings(1118)
	didx, _ := h.Ints(1116)
	sizes, _ := h.Ints(1028)
	modes, _ := h.Ints(1030)
	mtimes, _ := h.Ints(1034)
	digests, _ := h.Strings(1035)
	links, _ := h.Strings(1036)
	flags, _ := h.Ints(1037)
	users, _ := h.Strings(1039)
	groups, _ := h.Strings(1040)
	n := len(base)
	if n > 0 {
		for name, l := range map[string]int{"DIRINDEXES": len(didx), "FILESIZES": len(sizes), "FILEMODES": len(modes),
			"FILEMTIMES": len(mtimes), "FILEDIGESTS": len(digests), "FILELINKTOS": len(links), "FILEFLAGS": len(flags),
			"FILEUSERNAME": len(users), "FILEGROUPNAME": len(groups)} {
			if l != n {
				return d, fmt.Errorf("rpm: %s has %d items, BASENAMES has %d", name, l, n)
			}
		}
	}
	cp := map[string]*CpioEntry{}
	for i := range d.Cpio {
		cp[path.Clean("/"+strings.TrimPrefix(d.Cpio[i].Name, "."))] = &d.Cpio[i]
	}
	for i := 0; i < n; i++ {
		if int(didx[i]) >= len(dirs) {
			return d, fmt.Errorf("rpm: dirindex %d out of range", didx[i])
		}
		full := dirs[didx[i]] + base[i]
		e := PEntry{Stored: full, Abs: path.Clean("/" + full), Mode: int64(modes[i]), Owner: users[i], Group: groups[i],
			MTime: int64(mtimes[i]), Size: int64(sizes[i]), Link: links[i], Flags: uint32(flags[i]), Digest: digests[i]}
		d.Times = append(d.Times, TimeAt{"hdr:FILEMTIMES:" + full, int64(mtimes[i])})
		switch modes[i] & 0o170000 {
		case 0o040000:
			e.Kind = "dir"
		case 0o120000:
			e.Kind = "symlink"
		case 0o100000:
			e.Kind = "file"
		default:
			e.Kind = "other"
		}
		if c, ok := cp[e.Abs]; ok {
			e.Data = c.Data
		} else {
			e.Ghost = true
		}
		d.Payload = append(d.Payload, e)
	}
	return d, nil
}

func Decode(format string, b []byte) (*Decoded, error) {
	switch format {
	case "deb":
		return DecodeDeb(b)
	case "rpm":
		return DecodeRPM(b)
	case "apk":
		return DecodeAPK(b)
	case "archlinux":
		return DecodeArch(b)
	case "ipk":
		return DecodeIPK(b)
	}
	return nil, fmt.Errorf("unknown format %q", format)
}

func sortedKeys[V any](m map[string]V) []string {
	ks := make([]string, 0, len(m))
	for k := range m {
		ks = append(ks, k)
	}
	sort.Strings(ks)
	return ks
}

var _ = bytes.Equal
