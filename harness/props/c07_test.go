package props

import (
	"bytes"
	"fmt"
	"os"
	"os/exec"
	"path/filepath"
	"runtime"
	"strings"
	"testing"
	"time"

	"pgregory.net/rapid"
)

// allowedTimes: the configured package mtime, every explicitly configured entry mtime,
// the on-disk mtime of every source node (floor and nearest second), and 0 (field not populated).
func allowedTimes(c *BuildCase) map[int64]string {
	a := map[int64]string{0: "unset field", c.MTime: "package mtime"}
	// Go's zero time.Time written into a 32-bit field (pgzip / cpio): a constant that stands for "not set"
	zero := time.Time{}.Unix()
	a[int64(uint32(zero))] = "zero time.Time truncated to 32 bits (unset field)"
	a[zero] = "zero time.Time (unset field)"
	for i, e := range c.Contents {
		if e.FI != nil && e.FI.MTime != 0 {
			a[e.FI.MTime] = fmt.Sprintf("file_info.mtime of entry %d", i)
		}
	}
	for _, n := range c.Tree {
		if n.MTime != 0 {
			a[n.MTime] = "on-disk mtime of " + n.Rel
			if n.NS >= 500000000 {
				a[n.MTime+1] = "on-disk mtime of " + n.Rel + " (rounded)"
			}
		}
	}
	return a
}

func checkTimestamps(c *BuildCase, f string, d *Decoded, start, end int64, vs *vlist) {
	allowed := allowedTimes(c)
	for _, ta := range d.Times {
		if _, ok := allowed[ta.T]; ok {
			continue
		}
		clause := "C07.timestamp.foreign"
		if ta.T >= start-2 && ta.T <= end+2 {
			clause = "C07.timestamp.build-clock"
		}
		vs.add(clause, f, "%s = %d (%s) is neither the package mtime %d, a configured entry mtime nor a source's on-disk mtime", ta.Where, ta.T, time.Unix(ta.T, 0).UTC().Format(time.RFC3339), c.MTime)
		return
	}
}

func checkC07InProcess(c *BuildCase) []Violation {
	var vs vlist
	err := c.withRoot(func(root string) error {
		start := time.Now().Unix()
		first := map[string][]byte{}
		for _, f := range c.formats() {
			out, err := c.BuildOne(root, f)
			if err != nil {
				vs.add("C07.build", f, "valid configuration rejected: %v", err)
				continue
			}
			first[f] = out
		}
		end := time.Now().Unix()
		for _, f := range c.formats() {
			if first[f] == nil {
				continue
			}
			d, err := Decode(f, first[f])
			if d == nil {
				vs.add("C07.decode", f, "%v", err)
				continue
			}
			checkTimestamps(c, f, d, start, end, &vs)
		}
		// rebuild under different scheduler settings
		prev := runtime.GOMAXPROCS(0)
		defer runtime.GOMAXPROCS(prev)
		for _, procs := range []int{1, 4, prev} {
			runtime.GOMAXPROCS(procs)
			for _, f := range c.formats() {
				if first[f] == nil {
					continue
				}
				again, err := c.BuildOne(root, f)
				if err != nil {
					vs.add("C07.rebuild-error", f, "GOMAXPROCS=%d: %v", procs, err)
					continue
				}
				if !bytes.Equal(again, first[f]) {
					vs.add("C07.rebuild-differs", f, "rebuilding with GOMAXPROCS=%d yields different bytes (%d vs %d)%s", procs, len(again), len(first[f]), describeDiff(f, again, first[f]))
				}
			}
		}
		return nil
	})
	if err != nil {
		panic(err)
	}
	return vs
}

// genReproCase: everything the premise of C07 fixes is fixed.
func genReproCase(t *rapid.T) *BuildCase {
	c := genBuildCase(t, c01Opts)
	genFullMeta(t, c)
	c.Meta.Platform = ""
	c.MTime = genMTime(t, "pkgmtime2")
	if rapid.IntRange(0, 9).Draw(t, "epoch-mtime") == 0 {
		// boundary: the configured mtime is the Unix epoch itself (a set, non-zero time.Time whose Unix() is 0)
		c.MTime, c.MTimeEpoch = 0, true
	}
	c.RPMBuildHost = "buildhost.example"
	genSimpleScripts(t, c)
	if rapid.Bool().Draw(t, "changelog?") {
		addChangelog(c, rapid.IntRange(0, 3).Draw(t, "changelog.n"))
	}
	return c
}

func nontrivialC07(c *BuildCase) bool {
	sources := map[string]bool{}
	big := false
	for _, e := range c.Contents {
		switch {
		case e.FI != nil && e.FI.MTime != 0:
			sources["explicit"] = true
		case e.Type == "dir" || e.Type == "symlink" || e.Type == "ghost":
			sources["package"] = true
		default:
			sources["source"] = true
		}
	}
	for _, n := range c.Tree {
		if n.Size > 128<<10 {
			big = true
		}
	}
	maps := len(c.Scripts) >= 2 || (c.X != nil && (len(c.X.DebFields) >= 2 || len(c.X.IPKFields) >= 2))
	return len(sources) >= 2 || maps || big
}

// ---------- cross-process ----------

type crossRun struct {
	c     *BuildCase
	root  string
	first map[string][]byte
	sde   bool
}

// runCLI builds one format with the nfpm binary. A "UMASK=0xx" pseudo variable in env sets the process umask.
func runCLI(c *BuildCase, root, f, out string, env []string, relative bool, cfgName string) ([]byte, error) {
	cc := *c
	cc.RelSrc = relative
	if err := os.WriteFile(filepath.Join(root, cfgName), cc.YAMLFor(root, f), 0o644); err != nil {
		return nil, err
	}
	cmd := exec.Command(nfpmBinary(), "package", "-f", filepath.Join(root, cfgName), "-p", f, "-t", out)
	for _, e := range env {
		if strings.HasPrefix(e, "UMASK=") {
			cmd = exec.Command("sh", "-c", "umask "+strings.TrimPrefix(e, "UMASK=")+"; exec \"$@\"", "sh", nfpmBinary(), "package", "-f", filepath.Join(root, cfgName), "-p", f, "-t", out)
		}
	}
	cmd.Dir = root
	cmd.Env = append(os.Environ(), env...)
	if o, err := cmd.CombinedOutput(); err != nil {
		return nil, fmt.Errorf("%v: %s", err, strings.TrimSpace(string(o)))
	}
	return os.ReadFile(out)
}

func crossProcess(t *testing.T, st *Stats, n int) {
	if nfpmBinary() == "" {
		t.Fatalf("VERIF_NFPM is not set")
	}
	caseGen := rapid.Custom(genReproCase)
	seedBase := envInt("VERIF_SEED", 0)*1000 + envInt("VERIF_SHARD", 0)*100 + 7
	var runs []*crossRun
	defer func() {
		for _, r := range runs {
			_ = os.RemoveAll(r.root)
		}
	}()
	for i := 0; i < n; i++ {
		c := caseGen.Example(seedBase + i)
		for j := range c.Tree {
			if c.Tree[j].Size > 300000 {
				c.Tree[j].Size = 300000
			}
		}
		root, err := os.MkdirTemp(scratchBase(), "cross")
		if err != nil {
			t.Fatal(err)
		}
		root, _ = filepath.EvalSymlinks(root)
		r := &crossRun{c: c, root: root, first: map[string][]byte{}, sde: i%2 == 1}
		runs = append(runs, r)
		if err := Materialize(root, c.Tree); err != nil {
			t.Fatal(err)
		}
		env := []string{"TZ=UTC", "GOMAXPROCS=16"}
		cc := *c
		if r.sde {
			// package mtime through SOURCE_DATE_EPOCH instead of the mtime field
			env = append(env, fmt.Sprintf("SOURCE_DATE_EPOCH=%d", c.MTime))
			cc.MTime = 0
		}
		for _, f := range AllFormats {
			out, err := runCLI(&cc, root, f, filepath.Join(root, "first."+f), env, false, "first.yaml")
			if err != nil {
				var vs vlist
				vs.add("C07.cli-build", f, "%v", err)
				st.Report(t, c, vs)
				continue
			}
			r.first[f] = out
		}
	}
	time.Sleep(1100 * time.Millisecond) // one pause for the whole batch: a later wall-clock second
	for i, r := range runs {
		env := []string{"TZ=Asia/Kolkata", "GOMAXPROCS=2", "LANG=de_DE.UTF-8", "UMASK=077"}
		if i%3 == 0 {
			env = []string{"TZ=America/St_Johns", "GOMAXPROCS=1", "LC_ALL=C", "HOME=/nonexistent", "UMASK=000"}
		}
		cc := *r.c
		if r.sde {
			env = append(env, fmt.Sprintf("SOURCE_DATE_EPOCH=%d", r.c.MTime))
			cc.MTime = 0
		}
		var vs vlist
		for _, f := range AllFormats {
			if r.first[f] == nil {
				continue
			}
			out, err := runCLI(&cc, r.root, f, filepath.Join(r.root, "second."+f), env, true, "second.yaml")
			if err != nil {
				vs.add("C07.cli-build", f, "second build (relative sources): %v", err)
				continue
			}
			if !bytes.Equal(out, r.first[f]) {
				vs.add("C07.cross-process-differs", f, "a second process (env %v, relative source paths, >1s later) produced different bytes (%d vs %d)%s", env, len(out), len(r.first[f]), describeDiff(f, out, r.first[f]))
			}
			// and the library build equals the CLI build
			if !r.sde {
				lib, err := r.c.BuildOne(r.root, f)
				if err == nil && !bytes.Equal(lib, r.first[f]) {
					vs.add("C07.cli-vs-library", f, "the nfpm binary and the library produce different bytes for the same configuration (%d vs %d)%s", len(r.first[f]), len(lib), describeDiff(f, lib, r.first[f]))
				}
			}
		}
		st.Record(map[string]any{"cross-process": caseHash(r.c), "sde": r.sde, "env": env}, nontrivialC07(r.c), "cross-process", fmt.Sprintf("source-date-epoch:%v", r.sde))
		st.Report(t, r.c, vs)
	}
}

// bigFilesCase: several files of a MiB and more (sizes not in name order) between small ones - the shape in which
// work handed to background goroutines or size-dependent block splitting shows up as schedule-dependent bytes.
func bigFilesCase(variant int) *BuildCase {
	c := &BuildCase{
		Meta:  Meta{Name: "bigfiles", Arch: "amd64", Version: "1.0.0", Maintainer: "V <v@example.com>", Description: "big"},
		MTime: 1000000000, RPMBuildHost: "h", RPMCompression: []string{"gzip", "zstd"}[variant%2], DebCompression: []string{"gzip", "zstd", "none"}[variant%3],
	}
	sizes := []int{1<<20 + 70000, 200, 1<<20 + 900000, 1 << 20, 3000, 1<<20 + 300000}
	for i, sz := range sizes {
		rel := fmt.Sprintf("src/big/f%d.bin", i)
		c.Tree = append(c.Tree, FNode{Rel: rel, Kind: "file", Size: sz, Seed: 3*i + 1 + variant, Mode: 0o644, MTime: 900000000 + int64(i)})
	}
	c.Tree = append(c.Tree, FNode{Rel: "src/big", Kind: "dir", Mode: 0o755, MTime: 900000000})
	c.Contents = []Entry{{Src: "src/big", Dst: "/opt/big", Form: "dir"}, {Src: "src/big/f1.bin", Dst: "/etc/big.conf", Type: "config", Form: "single"}}
	return c
}

func checkRepeatedBuilds(c *BuildCase, reps int) []Violation {
	var vs vlist
	err := c.withRoot(func(root string) error {
		first := map[string][]byte{}
		prev := runtime.GOMAXPROCS(0)
		defer runtime.GOMAXPROCS(prev)
		for _, procs := range []int{prev, 1, 2, 4} {
			runtime.GOMAXPROCS(procs)
			for r := 0; r < reps; r++ {
				for _, f := range c.formats() {
					out, err := c.BuildOne(root, f)
					if err != nil {
						vs.add("C07.build", f, "%v", err)
						return nil
					}
					if first[f] == nil {
						first[f] = out
						continue
					}
					if !bytes.Equal(out, first[f]) {
						vs.add("C07.rebuild-differs", f, "build %d at GOMAXPROCS=%d differs from the first build (%d vs %d bytes)%s", r, procs, len(out), len(first[f]), describeDiff(f, out, first[f]))
						return nil
					}
				}
			}
		}
		return nil
	})
	if err != nil {
		panic(err)
	}
	return vs
}

func TestC07(t *testing.T) {
	st := newStats("C07")
	defer st.Flush()
	var rc BuildCase
	if replayCase(&rc) {
		st.Record(&rc, true, "replay")
		st.Report(t, &rc, checkC07InProcess(&rc))
		return
	}
	n := 6
	if thorough() {
		n = 40
	}
	crossProcess(t, st, n)
	for v := 0; v < map[bool]int{false: 1, true: 4}[thorough()]; v++ {
		bc := bigFilesCase(v + envInt("VERIF_SEED", 0))
		st.Record(bc, true, "big-files-repeated-builds")
		st.Report(t, bc, checkRepeatedBuilds(bc, 2))
	}
	rapid.Check(t, func(rt *rapid.T) {
		c := genReproCase(rt)
		labels, _, _ := classifyBuildCase(c)
		if c.MTimeEpoch {
			labels = append(labels, "mtime-is-unix-epoch")
		}
		st.Record(c, nontrivialC07(c), labels...)
		st.Report(rt, c, checkC07InProcess(c))
	})
}
