package props

import (
	"fmt"
	"sort"
	"strings"
	"testing"

	"pgregory.net/rapid"
)

// rpm file flags (rpmfiles.h)
const (
	rpmfConfig    = 1
	rpmfDoc       = 2
	rpmfMissingOK = 8
	rpmfNoReplace = 16
	rpmfGhost     = 64
	rpmfLicense   = 128
	rpmfReadme    = 256
)

func wantRPMFlags(etype string, kind string) uint32 {
	if kind != "file" && kind != "ghost" {
		return 0
	}
	switch etype {
	case "config":
		return rpmfConfig
	case "config|noreplace":
		return rpmfConfig | rpmfNoReplace
	case "config|missingok":
		return rpmfConfig | rpmfMissingOK
	case "ghost":
		return rpmfGhost
	case "doc":
		return rpmfDoc
	case "licence", "license":
		return rpmfLicense
	case "readme":
		return rpmfReadme
	}
	return 0
}

func checkC08Format(c *BuildCase, f string, d *Decoded, plan map[string]*ExpNode, vs *vlist) {
	var wantConf []string
	for p, n := range plan {
		if n.Kind == "file" && strings.HasPrefix(n.EType, "config") {
			wantConf = append(wantConf, p)
		}
	}
	sort.Strings(wantConf)
	switch f {
	case "deb", "ipk":
		m, ok := d.ControlMember("conffiles")
		var got []string
		if ok {
			txt := string(m.Data)
			if txt != "" && !strings.HasSuffix(txt, "\n") {
				vs.add("C08.conffiles.syntax", f, "conffiles does not end in a newline: %q", txt)
			}
			for _, l := range strings.Split(strings.TrimSuffix(txt, "\n"), "\n") {
				if l == "" {
					continue
				}
				if !strings.HasPrefix(l, "/") {
					vs.add("C08.conffiles.not-absolute", f, "conffiles line %q is not an absolute path", l)
				}
				got = append(got, l)
			}
		}
		sort.Strings(got)
		if strings.Join(got, "\n") != strings.Join(wantConf, "\n") {
			vs.add("C08.conffiles.set", f, "conffiles lists %q, config entries denote %q", got, wantConf)
		}
	case "archlinux":
		got := kvAll(d.PkgInfo, "backup")
		for i := range got {
			if strings.HasPrefix(got[i], "/") {
				vs.add("C08.arch.backup-not-relative", f, "backup = %q is not relative", got[i])
			}
			got[i] = "/" + got[i]
		}
		sort.Strings(got)
		if strings.Join(got, "\n") != strings.Join(wantConf, "\n") {
			vs.add("C08.arch.backup-set", f, "backup lines %q, config entries denote %q", got, wantConf)
		}
	case "rpm":
		for _, e := range d.Payload {
			n, ok := plan[e.Abs]
			if !ok {
				continue // C01 reports extras
			}
			want := wantRPMFlags(n.EType, n.Kind)
			if e.Flags != want {
				vs.add("C08.rpm.fileflags", f, "%s (type %q): FILEFLAGS %d, expected %d", e.Abs, n.EType, e.Flags, want)
			}
			if n.Kind == "ghost" {
				if !e.Ghost {
					vs.add("C08.rpm.ghost-has-payload", f, "%s: ghost entry has a cpio payload entry", e.Abs)
				}
				if e.Mode&0o7777 != n.Perm {
					vs.add("C08.rpm.ghost-mode", f, "%s: ghost mode %04o, expected %04o", e.Abs, e.Mode&0o7777, n.Perm)
				}
				if e.Kind != "file" {
					vs.add("C08.rpm.ghost-kind", f, "%s: ghost is listed as %s", e.Abs, e.Kind)
				}
			}
		}
		for p, n := range plan {
			if n.Kind != "ghost" && wantRPMFlags(n.EType, n.Kind) == 0 {
				continue
			}
			found := false
			for _, e := range d.Payload {
				if e.Abs == p {
					found = true
				}
			}
			if !found {
				vs.add("C08.rpm.missing", f, "%s (type %q) is not listed in the rpm header", p, n.EType)
			}
		}
	}
	if f != "rpm" {
		// ghost/doc/licence/readme entries never appear outside rpm
		rpmOnly := map[string]bool{}
		for _, e := range c.Contents {
			if e.isRPMOnly() {
				rpmOnly[cleanAbs(e.Dst)] = true
			}
		}
		for _, e := range d.Payload {
			if rpmOnly[e.Abs] {
				vs.add("C08.rpm-only-in-other-format", f, "%s is an rpm-only entry but appears in the %s payload", e.Abs, f)
			}
		}
	}
}

func checkC08(c *BuildCase) []Violation {
	var vs vlist
	err := c.withRoot(func(root string) error {
		b := buildAll(c, root, "C08", &vs)
		for _, f := range c.formats() {
			if d := b.decoded[f]; d != nil {
				checkC08Format(c, f, d, b.plans[f], &vs)
			}
		}
		return nil
	})
	if err != nil {
		panic(err)
	}
	return vs
}

func nontrivialC08(c *BuildCase) bool {
	conf, plain, multi := 0, 0, false
	ti := indexTree(c.Tree)
	for _, e := range c.Contents {
		if e.isConfig() {
			conf++
			if ms, _, _ := ti.expandSource(e.Src, c.DisableGlobbing); len(ms) >= 2 {
				multi = true
			}
		} else if e.isFileLike() || e.Type == "tree" {
			plain++
		}
	}
	return (conf >= 1 && plain >= 1) || multi
}

var c08Types = []string{"", "file", "config", "config|noreplace", "config|missingok", "dir", "symlink", "tree", "ghost", "doc", "licence", "license", "readme"}

// matrixCase embeds one (type, packager) cell in a small fixed surrounding list.
func matrixCase(typ, packager string) *BuildCase {
	c := &BuildCase{
		Meta:  Meta{Name: "cell", Arch: "amd64", Version: "1.0.0", Maintainer: "V <v@example.com>", Description: "matrix"},
		MTime: 1000000000,
		Tree: []FNode{
			{Rel: "src/plain.txt", Kind: "file", Size: 10, Seed: 1, Mode: 0o644, MTime: 900000000},
			{Rel: "src/other.conf", Kind: "file", Size: 20, Seed: 2, Mode: 0o600, MTime: 900000001},
			{Rel: "src/cell", Kind: "dir", Mode: 0o755, MTime: 900000002},
			{Rel: "src/cell/a", Kind: "file", Size: 30, Seed: 4, Mode: 0o644, MTime: 900000003},
			{Rel: "src/cell/sub", Kind: "dir", Mode: 0o750, MTime: 900000004},
			{Rel: "src/cell/sub/b", Kind: "file", Size: 40, Seed: 5, Mode: 0o640, MTime: 900000005},
		},
		Contents: []Entry{
			{Src: "src/plain.txt", Dst: "/usr/share/cell/plain.txt", Form: "single"},
			{Src: "src/other.conf", Dst: "/etc/cell/other.conf", Type: "config", Form: "single"},
		},
		RPMBuildHost: "h",
	}
	e := Entry{Type: typ, Packager: packager, Dst: "/opt/cell/x"}
	switch typ {
	case "dir", "ghost":
		e.Form = "none"
	case "symlink":
		e.Src, e.Form = "/usr/share/cell/plain.txt", "none"
	case "tree":
		e.Src, e.Form = "src/cell", "tree"
	case "doc", "licence", "license", "readme":
		e.Src, e.Form = "src/cell/a", "single"
	default:
		e.Src, e.Form = "src/cell", "dir" // a directory source: the entry expands to two files
	}
	c.Contents = append(c.Contents, e)
	return c
}

func TestC08(t *testing.T) {
	st := newStats("C08")
	defer st.Flush()
	var rc BuildCase
	if replayCase(&rc) {
		st.Record(&rc, true, "replay")
		st.Report(t, &rc, checkC08(&rc))
		return
	}
	// exhaustive (entry type x packager tag) matrix
	cells := 0
	for _, typ := range c08Types {
		for _, pk := range append([]string{""}, AllFormats...) {
			c := matrixCase(typ, pk)
			st.Record(c, true, "matrix-cell")
			st.Report(t, c, checkC08(c))
			cells++
		}
	}
	st.Exhaustive["entry type x packager tag"] = cells
	rapid.Check(t, func(rt *rapid.T) {
		o := c01Opts
		c := genBuildCase(rt, o)
		// bias towards config entries: retag some plain file entries
		for i := range c.Contents {
			e := &c.Contents[i]
			if (e.Type == "" || e.Type == "file") && rapid.IntRange(0, 2).Draw(rt, fmt.Sprintf("conf%d", i)) == 0 {
				e.Type = rapid.SampledFrom([]string{"config", "config|noreplace", "config|missingok"}).Draw(rt, fmt.Sprintf("conftype%d", i))
			}
		}
		labels, _, _ := classifyBuildCase(c)
		st.Record(c, nontrivialC08(c), labels...)
		st.Report(rt, c, checkC08(c))
	})
}
