package props

import (
	"encoding/json"
	"fmt"
	"os"
	"os/exec"
	"path/filepath"
	"reflect"
	"strings"
	"testing"
	"time"

	"github.com/goreleaser/nfpm/v2"
	"github.com/goreleaser/nfpm/v2/files"
	"gopkg.in/yaml.v3"
	"pgregory.net/rapid"
)

// ---------- reflection helpers ----------

var timeType = reflect.TypeOf(time.Time{})

type leaf struct {
	Path string
	Idx  []int
	Type reflect.Type
}

// leavesOf lists the overridable leaves (fields that are not plain structs), by yaml path.
func leavesOf(t reflect.Type, prefix string, idx []int) []leaf {
	var out []leaf
	for i := 0; i < t.NumField(); i++ {
		f := t.Field(i)
		if !f.IsExported() {
			continue
		}
		tag := strings.Split(f.Tag.Get("yaml"), ",")[0]
		if tag == "-" {
			continue
		}
		p := prefix
		inline := strings.Contains(f.Tag.Get("yaml"), "inline")
		if !inline {
			if tag == "" {
				tag = strings.ToLower(f.Name)
			}
			if p != "" {
				p += "."
			}
			p += tag
		}
		ni := append(append([]int(nil), idx...), i)
		if f.Type.Kind() == reflect.Struct && f.Type != timeType {
			out = append(out, leavesOf(f.Type, p, ni)...)
			continue
		}
		out = append(out, leaf{Path: p, Idx: ni, Type: f.Type})
	}
	return out
}

func deepCopyValue(v reflect.Value) reflect.Value {
	switch v.Kind() {
	case reflect.Ptr:
		if v.IsNil() {
			return reflect.Zero(v.Type())
		}
		n := reflect.New(v.Type().Elem())
		n.Elem().Set(deepCopyValue(v.Elem()))
		return n
	case reflect.Slice:
		if v.IsNil() {
			return reflect.Zero(v.Type())
		}
		n := reflect.MakeSlice(v.Type(), v.Len(), v.Len())
		for i := 0; i < v.Len(); i++ {
			n.Index(i).Set(deepCopyValue(v.Index(i)))
		}
		return n
	case reflect.Map:
		if v.IsNil() {
			return reflect.Zero(v.Type())
		}
		n := reflect.MakeMapWithSize(v.Type(), v.Len())
		for _, k := range v.MapKeys() {
			n.SetMapIndex(k, deepCopyValue(v.MapIndex(k)))
		}
		return n
	case reflect.Struct:
		if v.Type() == timeType {
			return v
		}
		n := reflect.New(v.Type()).Elem()
		for i := 0; i < v.NumField(); i++ {
			if v.Type().Field(i).IsExported() {
				n.Field(i).Set(deepCopyValue(v.Field(i)))
			}
		}
		return n
	}
	return v
}

// refMerge is M-MERGE: every non-empty leaf of src replaces the leaf of dst; slices
// wholesale, structs and string-keyed maps member by member, booleans only when true.
func refMerge(dst, src reflect.Value) {
	switch src.Kind() {
	case reflect.Struct:
		if src.Type() == timeType {
			if !src.IsZero() {
				dst.Set(src)
			}
			return
		}
		for i := 0; i < src.NumField(); i++ {
			if src.Type().Field(i).IsExported() {
				refMerge(dst.Field(i), src.Field(i))
			}
		}
	case reflect.Slice:
		if src.Len() > 0 {
			dst.Set(deepCopyValue(src))
		}
	case reflect.Map:
		if src.Len() > 0 {
			if dst.IsNil() {
				dst.Set(reflect.MakeMap(dst.Type()))
			}
			for _, k := range src.MapKeys() {
				if !src.MapIndex(k).IsZero() {
					dst.SetMapIndex(k, src.MapIndex(k))
				}
			}
		}
	case reflect.Ptr:
		if !src.IsNil() && !src.Elem().IsZero() {
			dst.Set(deepCopyValue(src))
		}
	case reflect.Func:
	default:
		if !src.IsZero() {
			dst.Set(src)
		}
	}
}

func filterContents(cs files.Contents, format string) files.Contents {
	var out files.Contents
	for _, c := range cs {
		if c.Packager == "" || c.Packager == format {
			out = append(out, c)
		}
	}
	return out
}

// normalizeEmpty makes nil and empty slices/maps compare equal.
func normalizeEmpty(v reflect.Value) {
	switch v.Kind() {
	case reflect.Struct:
		if v.Type() == timeType {
			return
		}
		for i := 0; i < v.NumField(); i++ {
			if v.Type().Field(i).IsExported() {
				normalizeEmpty(v.Field(i))
			}
		}
	case reflect.Slice:
		if v.Len() == 0 && v.CanSet() {
			v.Set(reflect.Zero(v.Type()))
		}
		for i := 0; i < v.Len(); i++ {
			normalizeEmpty(v.Index(i))
		}
	case reflect.Map:
		if v.Len() == 0 && v.CanSet() {
			v.Set(reflect.Zero(v.Type()))
		}
	case reflect.Ptr:
		if !v.IsNil() {
			normalizeEmpty(v.Elem())
		}
	}
}

func dumpJSON(v any) string {
	b, err := json.Marshal(v)
	if err != nil {
		return fmt.Sprintf("%+v", v)
	}
	return string(b)
}

// ---------- value generation ----------

func genLeafValue(t *rapid.T, typ reflect.Type, label string, nonEmpty bool, salt string) reflect.Value {
	str := func(l string) string {
		if !nonEmpty && rapid.IntRange(0, 3).Draw(t, l+".empty") == 0 {
			return ""
		}
		return salt + rapid.StringMatching(`[a-z]{1,4}`).Draw(t, l)
	}
	switch {
	case typ == reflect.TypeOf(files.Contents{}):
		n := rapid.IntRange(0, 3).Draw(t, label+".n")
		if nonEmpty && n == 0 {
			n = 1
		}
		var cs files.Contents
		for i := 0; i < n; i++ {
			c := &files.Content{
				Destination: "/" + salt + rapid.StringMatching(`[a-z]{1,4}`).Draw(t, fmt.Sprintf("%s.dst%d", label, i)),
				Type:        rapid.SampledFrom([]string{"dir", "symlink", "ghost"}).Draw(t, fmt.Sprintf("%s.type%d", label, i)),
				Packager:    rapid.SampledFrom([]string{"", "", "deb", "rpm", "apk", "archlinux", "ipk"}).Draw(t, fmt.Sprintf("%s.pk%d", label, i)),
			}
			if c.Type == "symlink" {
				c.Source = "/target/" + salt
			}
			if rapid.Bool().Draw(t, fmt.Sprintf("%s.fi%d", label, i)) {
				c.FileInfo = &files.ContentFileInfo{Owner: salt + "o", Mode: os.FileMode(rapid.IntRange(1, 0o777).Draw(t, fmt.Sprintf("%s.mode%d", label, i)))}
			}
			cs = append(cs, c)
		}
		if n == 0 && rapid.Bool().Draw(t, label+".emptynonnil") {
			return reflect.ValueOf(files.Contents{})
		}
		return reflect.ValueOf(cs)
	case typ.Kind() == reflect.String:
		return reflect.ValueOf(str(label)).Convert(typ)
	case typ.Kind() == reflect.Bool:
		if nonEmpty {
			return reflect.ValueOf(true)
		}
		return reflect.ValueOf(rapid.Bool().Draw(t, label))
	case typ.Kind() == reflect.Uint32: // os.FileMode
		lo := 0
		if nonEmpty {
			lo = 1
		}
		return reflect.ValueOf(uint32(rapid.IntRange(lo, 0o777).Draw(t, label))).Convert(typ)
	case typ.Kind() == reflect.Slice && typ.Elem().Kind() == reflect.String:
		n := rapid.IntRange(0, 3).Draw(t, label+".n")
		if nonEmpty && n == 0 {
			n = 1
		}
		s := reflect.MakeSlice(typ, 0, n)
		for i := 0; i < n; i++ {
			s = reflect.Append(s, reflect.ValueOf(salt+rapid.StringMatching(`[a-z]{1,4}`).Draw(t, fmt.Sprintf("%s.%d", label, i))))
		}
		if n == 0 {
			if rapid.Bool().Draw(t, label+".emptynonnil") {
				return reflect.MakeSlice(typ, 0, 0) // present but empty: must not replace anything
			}
			return reflect.Zero(typ)
		}
		return s
	case typ == reflect.TypeOf([]nfpm.IPKAlternative{}):
		n := rapid.IntRange(0, 2).Draw(t, label+".n")
		if nonEmpty && n == 0 {
			n = 1
		}
		var out []nfpm.IPKAlternative
		for i := 0; i < n; i++ {
			out = append(out, nfpm.IPKAlternative{Priority: rapid.IntRange(1, 100).Draw(t, fmt.Sprintf("%s.p%d", label, i)), Target: "/" + salt + "t", LinkName: "/" + salt + "l"})
		}
		return reflect.ValueOf(out)
	case typ.Kind() == reflect.Map:
		n := rapid.IntRange(0, 3).Draw(t, label+".n")
		if nonEmpty && n == 0 {
			n = 1
		}
		if n == 0 {
			return reflect.Zero(typ)
		}
		m := reflect.MakeMap(typ)
		for i := 0; i < n; i++ {
			k := rapid.SampledFrom([]string{"Bugs", "Source", "X-One", "X-Two"}).Draw(t, fmt.Sprintf("%s.k%d", label, i))
			m.SetMapIndex(reflect.ValueOf(k), reflect.ValueOf(salt+"v"+k))
		}
		return m
	case typ.Kind() == reflect.Ptr && typ.Elem().Kind() == reflect.String:
		if !nonEmpty && rapid.Bool().Draw(t, label+".nil") {
			return reflect.Zero(typ)
		}
		s := salt + rapid.StringMatching(`[0-9a-f]{4}`).Draw(t, label)
		return reflect.ValueOf(&s)
	}
	panic("no generator for overridable leaf type " + typ.String())
}

// fixedLeafValue is a deterministic non-empty value for a leaf, distinguishable by salt.
func fixedLeafValue(typ reflect.Type, salt string) reflect.Value {
	switch {
	case typ == reflect.TypeOf(files.Contents{}):
		return reflect.ValueOf(files.Contents{
			{Destination: "/" + salt + "/all", Type: "dir", FileInfo: &files.ContentFileInfo{Owner: salt, Mode: 0o750}},
			{Destination: "/" + salt + "/deb", Type: "ghost", Packager: "deb"},
			{Destination: "/" + salt + "/rpm", Type: "symlink", Source: "/t" + salt, Packager: "rpm"},
		})
	case typ.Kind() == reflect.String:
		return reflect.ValueOf(salt + "-value").Convert(typ)
	case typ.Kind() == reflect.Bool:
		return reflect.ValueOf(true)
	case typ.Kind() == reflect.Uint32:
		if salt == "b" {
			return reflect.ValueOf(uint32(0o022)).Convert(typ)
		}
		return reflect.ValueOf(uint32(0o077)).Convert(typ)
	case typ.Kind() == reflect.Slice && typ.Elem().Kind() == reflect.String:
		s := reflect.MakeSlice(typ, 0, 2)
		s = reflect.Append(s, reflect.ValueOf(salt+"1"), reflect.ValueOf(salt+"2"))
		return s
	case typ == reflect.TypeOf([]nfpm.IPKAlternative{}):
		return reflect.ValueOf([]nfpm.IPKAlternative{{Priority: 10 + len(salt), Target: "/" + salt + "t", LinkName: "/" + salt + "l"}})
	case typ.Kind() == reflect.Map:
		m := reflect.MakeMap(typ)
		m.SetMapIndex(reflect.ValueOf("Shared"), reflect.ValueOf(salt+"-shared"))
		m.SetMapIndex(reflect.ValueOf("Only-"+salt), reflect.ValueOf(salt+"-only"))
		return m
	case typ.Kind() == reflect.Ptr && typ.Elem().Kind() == reflect.String:
		s := salt + "cafe"
		return reflect.ValueOf(&s)
	}
	panic("no fixed value for overridable leaf type " + typ.String())
}

// OverrideCase is one configuration with override blocks, in a JSON-serialisable form:
// the YAML text of the configuration.
type OverrideCase struct {
	YAML    string `json:"yaml"`
	ViaYAML bool   `json:"via_yaml"`
}

func checkOverride(cfg *nfpm.Config, vs *vlist) {
	beforeV := deepCopyValue(reflect.ValueOf(cfg.Info))
	for _, f := range AllFormats {
		info, err := cfg.Get(f)
		if err != nil {
			vs.add("C13.get-error", f, "Get: %v", err)
			continue
		}
		// expected: base with the format's override merged in
		exp := deepCopyValue(reflect.ValueOf(cfg.Info.Overridables))
		expPtr := reflect.New(exp.Type())
		expPtr.Elem().Set(exp)
		ov, has := cfg.Overrides[f]
		if has && ov != nil {
			refMerge(expPtr.Elem(), reflect.ValueOf(*ov))
		}
		want := expPtr.Interface().(*nfpm.Overridables)
		got := info.Overridables
		// contents: entries for other packagers may or may not be filtered here (packagers filter again);
		// compare the entries relevant to this format, in order
		want.Contents = filterContents(want.Contents, f)
		got.Contents = filterContents(got.Contents, f)
		if has && ov != nil {
			for _, c := range info.Contents {
				if c.Packager != "" && c.Packager != f {
					vs.add("C13.foreign-content", f, "effective contents for %s include %s tagged for %s", f, c.Destination, c.Packager)
				}
			}
		}
		normalizeEmpty(reflect.ValueOf(want).Elem())
		normalizeEmpty(reflect.ValueOf(&got).Elem())
		if !reflect.DeepEqual(*want, got) {
			// find the differing leaves
			var diffs []string
			for _, l := range leavesOf(reflect.TypeOf(nfpm.Overridables{}), "", nil) {
				a := reflect.ValueOf(*want).FieldByIndex(l.Idx).Interface()
				b := reflect.ValueOf(got).FieldByIndex(l.Idx).Interface()
				if l.Type.Kind() == reflect.Func {
					continue
				}
				if !reflect.DeepEqual(a, b) {
					diffs = append(diffs, fmt.Sprintf("%s: effective %s, expected %s", l.Path, dumpJSON(b), dumpJSON(a)))
				}
			}
			if len(diffs) > 4 {
				diffs = diffs[:4]
			}
			vs.add("C13.merge", f, "effective settings differ from base+override: %s", strings.Join(diffs, "; "))
		}
		// non-overridable fields come from the base unchanged
		gi, bi := *info, cfg.Info
		gi.Overridables, bi.Overridables = nfpm.Overridables{}, nfpm.Overridables{}
		if dumpJSON(gi) != dumpJSON(bi) {
			vs.add("C13.non-overridable-changed", f, "non-overridable fields differ: %s vs base %s", dumpJSON(gi), dumpJSON(bi))
		}
		for _, l := range leavesOf(reflect.TypeOf(nfpm.Info{}), "", nil) {
			if l.Type.Kind() == reflect.Func {
				continue
			}
			a := beforeV.FieldByIndex(l.Idx).Interface()
			b := reflect.ValueOf(cfg.Info).FieldByIndex(l.Idx).Interface()
			if !reflect.DeepEqual(a, b) {
				vs.add("C13.base-mutated", f, "Get(%s) changed the base setting %s from %s to %s", f, l.Path, dumpJSON(a), dumpJSON(b))
				beforeV = deepCopyValue(reflect.ValueOf(cfg.Info))
			}
		}
	}
}

// checkC13Packages builds every format and reports payload entries that only an entry
// addressed to ANOTHER packager denotes.
func checkC13Packages(c *BuildCase) []Violation {
	var vs vlist
	err := c.withRoot(func(root string) error {
		b := buildAll(c, root, "C13", &vs)
		for _, f := range c.formats() {
			d := b.decoded[f]
			if d == nil {
				continue
			}
			own := b.plans[f]
			foreign := map[string]string{}
			for _, g := range AllFormats {
				if g == f {
					continue
				}
				// what the entries tagged for g denote (planned on their own so collisions cannot hide them)
				for i, e := range c.Contents {
					if e.Packager != g {
						continue
					}
					solo := *c
					solo.Contents = []Entry{c.Contents[i]}
					solo.Contents[0].Packager = ""
					pf := "rpm" // rpm knows every type
					plan, err := Plan(&solo, pf)
					if err != nil {
						continue
					}
					for p, n := range plan {
						if n.Implied {
							continue
						}
						if _, mine := own[p]; !mine {
							foreign[p] = fmt.Sprintf("contents[%d] (type %q, packager %s)", i, e.Type, g)
						}
					}
				}
			}
			for _, pe := range d.Payload {
				if who, ok := foreign[pe.Abs]; ok {
					vs.add("C13.foreign-entry-in-package", f, "%s is in the %s package but only %s denotes it", pe.Abs, f, who)
				}
			}
		}
		return nil
	})
	if err != nil {
		panic(err)
	}
	return vs
}

func renderConfigYAML(cfg *nfpm.Config) string {
	b, err := yaml.Marshal(cfg)
	if err != nil {
		panic(err)
	}
	return string(b)
}

func baseInfo() nfpm.Info {
	return nfpm.Info{Name: "ovr", Arch: "amd64", Version: "1.0.0", Platform: "linux", Description: "d", Maintainer: "m <m@example.com>"}
}

func TestC13(t *testing.T) {
	st := newStats("C13")
	defer st.Flush()
	var prcase struct {
		PC *BuildCase `json:"package_case"`
	}
	if replayCase(&prcase) && prcase.PC != nil {
		st.Record(&prcase, true, "replay")
		st.Report(t, &prcase, checkC13Packages(prcase.PC))
		return
	}
	var rc OverrideCase
	if replayCase(&rc) {
		cfg, err := parseText(rc.YAML, noEnv)
		var vs vlist
		if err != nil {
			vs.add("C13.yaml-rejected", "", "generated configuration does not parse: %v", err)
		} else {
			checkOverride(&cfg, &vs)
		}
		st.Record(&rc, true, "replay")
		st.Report(t, &rc, vs)
		return
	}
	leaves := leavesOf(reflect.TypeOf(nfpm.Overridables{}), "", nil)
	// (1) exhaustive: every overridable leaf x every format as override owner (observed from all five formats)
	cells := 0
	var firstViol vlist
	for _, l := range leaves {
		if l.Type.Kind() == reflect.Func {
			continue
		}
		for _, owner := range AllFormats {
			cfg := nfpm.Config{Info: baseInfo(), Overrides: map[string]*nfpm.Overridables{}}
			bv := reflect.ValueOf(&cfg.Info.Overridables).Elem()
			for _, bl := range leaves {
				if bl.Type.Kind() == reflect.Func {
					continue
				}
				bv.FieldByIndex(bl.Idx).Set(fixedLeafValue(bl.Type, "b"))
			}
			ov := &nfpm.Overridables{}
			reflect.ValueOf(ov).Elem().FieldByIndex(l.Idx).Set(fixedLeafValue(l.Type, "o"))
			cfg.Overrides[owner] = ov
			oc := &OverrideCase{YAML: renderConfigYAML(&cfg)}
			var vs vlist
			checkOverride(&cfg, &vs)
			st.Record(map[string]string{"leaf": l.Path, "owner": owner}, true, "matrix")
			cells++
			if left := st.Filter(vs); len(left) > 0 && len(firstViol) == 0 {
				firstViol = left
				st.saveReplay(oc, left)
			}
		}
	}
	if len(firstViol) > 0 {
		t.Fatalf("property C13 violated in the leaf x format matrix: %v", firstViol)
	}
	st.Exhaustive["overridable leaf x owner format (x 5 observers)"] = cells
	st.Label("overridable-leaves", len(leaves))
	// (2) random combinations, half of them through YAML text
	rapid.Check(t, func(rt *rapid.T) {
		cfg := nfpm.Config{Info: baseInfo(), Overrides: map[string]*nfpm.Overridables{}}
		bv := reflect.ValueOf(&cfg.Info.Overridables).Elem()
		for _, bl := range leaves {
			if bl.Type.Kind() == reflect.Func {
				continue
			}
			if rapid.IntRange(0, 2).Draw(rt, "base.set."+bl.Path) != 0 {
				bv.FieldByIndex(bl.Idx).Set(genLeafValue(rt, bl.Type, "base."+bl.Path, false, "b"))
			}
		}
		nset := 0
		nullBlocks := 0
		for _, f := range AllFormats {
			if rapid.IntRange(0, 2).Draw(rt, "ov?"+f) == 0 {
				if rapid.IntRange(0, 5).Draw(rt, "ov.null?"+f) == 0 {
					// a block that holds nothing (`apk:` followed only by comments, as in the reference configuration of
					// the documentation): YAML null, i.e. no override for that format
					cfg.Overrides[f] = nil
					nullBlocks++
				}
				continue
			}
			ov := &nfpm.Overridables{}
			ovv := reflect.ValueOf(ov).Elem()
			for _, l := range leaves {
				if l.Type.Kind() == reflect.Func {
					continue
				}
				if rapid.IntRange(0, 5).Draw(rt, "ov.set."+f+"."+l.Path) == 0 {
					ovv.FieldByIndex(l.Idx).Set(genLeafValue(rt, l.Type, "ov."+f+"."+l.Path, false, "o"+f[:1]))
					nset++
				}
			}
			cfg.Overrides[f] = ov
		}
		via := rapid.Bool().Draw(rt, "via-yaml") || nullBlocks > 0 // a null block only exists in a document
		oc := &OverrideCase{YAML: renderConfigYAML(&cfg), ViaYAML: via}
		use := &cfg
		var vs vlist
		if via {
			parsed, err := parseText(oc.YAML, noEnv)
			if err != nil {
				vs.add("C13.yaml-rejected", "", "generated configuration does not parse: %v", err)
			} else {
				use = &parsed
			}
		}
		if len(vs) == 0 {
			checkOverride(use, &vs)
		}
		labels := []string{fmt.Sprintf("override-blocks:%d", len(cfg.Overrides))}
		if via {
			labels = append(labels, "via-yaml")
		}
		if nullBlocks > 0 {
			labels = append(labels, "null-override-block")
		}
		st.Record(oc, nset > 0, labels...)
		st.Report(rt, oc, vs)
	})
	// (2b) package leg: entries addressed to one packager never appear in another format's package,
	// with and without override blocks (Config.Get filters contents only when an override block exists)
	var prc BuildCase
	_ = prc
	rapid.Check(t, func(rt *rapid.T) {
		if rapid.IntRange(0, 9).Draw(rt, "package-leg") > 0 {
			return // one case in ten: builds are far more expensive than merges
		}
		o := c01Opts
		o.maxEntries = 6
		c := genBuildCase(rt, o)
		for i := range c.Tree {
			if c.Tree[i].Size > 5000 {
				c.Tree[i].Size %= 5000
			}
		}
		// tag more entries, including rpm-only and ordinary types alike
		for i := range c.Contents {
			if c.Contents[i].Packager == "" && c.Contents[i].Type != "dir" && rapid.IntRange(0, 1).Draw(rt, fmt.Sprintf("tag%d", i)) == 0 {
				c.Contents[i].Packager = rapid.SampledFrom(AllFormats).Draw(rt, fmt.Sprintf("tagfmt%d", i))
			}
		}
		ov := map[string]any{}
		for _, f := range AllFormats {
			if rapid.IntRange(0, 2).Draw(rt, "pkg.ov."+f) == 0 {
				ov[f] = map[string]any{"depends": []any{"ovdep-" + f}}
			}
		}
		if len(ov) > 0 {
			c.Extra = map[string]any{"overrides": ov}
		}
		tagged := 0
		for _, e := range c.Contents {
			if e.Packager != "" {
				tagged++
			}
		}
		st.Record(c, tagged > 0, "package-leg", fmt.Sprintf("override-blocks:%d", len(ov)))
		st.Report(rt, map[string]any{"package_case": c}, checkC13Packages(c))
	})
	// (2c) the command-line tool builds the effective settings of the format it ends up using, however the packager was determined
	if bin := nfpmBinary(); bin != "" {
		ncli := 0
		for _, f := range []string{"deb", "rpm", "apk", "ipk", "archlinux"} {
			for _, passP := range []bool{true, false} {
				if !passP && f == "archlinux" {
					continue // ".zst" names no packager
				}
				c := metaBaseCase()
				c.Meta = Meta{Name: "ovcli", Arch: "amd64", Version: "1.0.0", Maintainer: "V <v@example.com>", Description: "d", Depends: []string{"base-dep"}}
				ov := map[string]any{}
				for _, g := range AllFormats {
					ov[g] = map[string]any{"depends": []any{"dep-for-" + g}, "scripts": map[string]any{}}
				}
				c.Extra = map[string]any{"overrides": ov}
				var vs vlist
				err := c.withRoot(func(root string) error {
					cfgPath := filepath.Join(root, "nfpm.yaml")
					if err := os.WriteFile(cfgPath, c.YAMLFor(root, f), 0o644); err != nil {
						return err
					}
					target := filepath.Join(root, "out"+extOf[f])
					args := []string{"package", "-f", cfgPath, "-t", target}
					if passP {
						args = append(args, "-p", f)
					}
					cmd := exec.Command(bin, args...)
					cmd.Dir = root
					if out, err := cmd.CombinedOutput(); err != nil {
						vs.add("C13.cli.failed", f, "nfpm %v: %v: %s", args[3:], err, out)
						return nil
					}
					b, err := os.ReadFile(target)
					if err != nil {
						vs.add("C13.cli.failed", f, "no package at %s", target)
						return nil
					}
					d, err := Decode(f, b)
					if d == nil {
						vs.add("C13.cli.decode", f, "%v", err)
						return nil
					}
					dm, err := decodeMeta(f, d)
					if err != nil {
						return nil
					}
					if got := dm.Rel["depends"]; !eqStrings(got, []string{"dep-for-" + f}) {
						vs.add("C13.cli.override-not-applied", f, "nfpm %v: the package depends on %q, the override block for %s says %q", args[3:], got, f, []string{"dep-for-" + f})
					}
					return nil
				})
				if err != nil {
					t.Fatal(err)
				}
				st.Record(map[string]any{"cli-override": f, "pass_p": passP}, true, "cli-override")
				ncli++
				st.Report(t, map[string]any{"package_case": c}, vs)
			}
		}
		st.Exhaustive["CLI: format x packager given/guessed with an override block"] = ncli
	} else {
		st.Note("VERIF_NFPM not set: the command-line leg was skipped")
	}
	// (3) validation rejects override blocks for unknown packagers, accepts known ones
	vkeys := []string{"deb", "rpm", "apk", "archlinux", "ipk", "foo", "DEB", "pacman", "", "msi", "dep", "aab", "zzz"}
	nval := 0
	for i, k1 := range vkeys {
		for j := i; j < len(vkeys); j++ {
			// every single key and every pair of keys
			keys := []string{k1}
			if j > i {
				keys = append(keys, vkeys[j])
			}
			cfg := nfpm.Config{Info: baseInfo(), Overrides: map[string]*nfpm.Overridables{}}
			allRegistered := true
			for _, k := range keys {
				cfg.Overrides[k] = &nfpm.Overridables{Depends: []string{"x"}}
				if _, gerr := nfpm.Get(k); gerr != nil {
					allRegistered = false
				}
			}
			err := cfg.Validate()
			var vs vlist
			if allRegistered && err != nil {
				vs.add("C13.validate-rejects-registered", "", "Validate rejects override blocks for registered packagers %q: %v", keys, err)
			}
			if !allRegistered && err == nil {
				vs.add("C13.validate-accepts-unregistered", "", "Validate accepts override blocks %q although one of them has no registered packager", keys)
			}
			st.Record(map[string]any{"validate-override-keys": keys}, true, "validate")
			nval++
			st.Report(t, &OverrideCase{YAML: renderConfigYAML(&cfg)}, vs)
		}
	}
	st.Exhaustive["override key sets of size 1 and 2 checked by Validate"] = nval
}
