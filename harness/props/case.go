package props

import (
	"bytes"
	"fmt"
	"os"
	"path/filepath"
	"sort"
	"strconv"
	"strings"
	"time"

	"github.com/goreleaser/nfpm/v2"
	_ "github.com/goreleaser/nfpm/v2/apk"
	_ "github.com/goreleaser/nfpm/v2/arch"
	_ "github.com/goreleaser/nfpm/v2/deb"
	_ "github.com/goreleaser/nfpm/v2/ipk"
	_ "github.com/goreleaser/nfpm/v2/rpm"
	"gopkg.in/yaml.v3"
)

var AllFormats = []string{"deb", "rpm", "apk", "archlinux", "ipk"}

// FNode is one node of the source tree the harness materialises on disk.
type FNode struct {
	Rel    string `json:"rel"`  // path relative to the case root
	Kind   string `json:"kind"` // file | dir | symlink
	Size   int    `json:"size,omitempty"`
	Seed   int    `json:"seed,omitempty"`
	Mode   uint32 `json:"mode,omitempty"`
	MTime  int64  `json:"mtime,omitempty"`
	NS     int64  `json:"ns,omitempty"` // sub-second part of the on-disk mtime
	Target string `json:"target,omitempty"`
	Text   string `json:"text,omitempty"` // literal content (scripts, changelog); overrides Size/Seed
}

// Content returns the bytes of a regular file node: a pure function of the node.
func (n FNode) Content() []byte {
	if n.Text != "" || n.Size == 0 {
		return []byte(n.Text)
	}
	b := make([]byte, n.Size)
	x := uint64(n.Seed)*0x9E3779B97F4A7C15 + 0xD1B54A32D192ED03
	if n.Seed%3 == 0 {
		// compressible: repeating short phrase with a counter
		phrase := []byte(fmt.Sprintf("line %d of generated file seed=%d\n", n.Seed, n.Seed))
		for i := range b {
			b[i] = phrase[i%len(phrase)]
		}
		return b
	}
	for i := range b {
		x ^= x << 13
		x ^= x >> 7
		x ^= x << 17
		b[i] = byte(x >> 32)
	}
	return b
}

type FileInfoSpec struct {
	Owner string `json:"owner,omitempty"`
	Group string `json:"group,omitempty"`
	Mode  uint32 `json:"mode,omitempty"`  // 0 = unset
	MTime int64  `json:"mtime,omitempty"` // 0 = unset
}

// Entry is one element of `contents`.
type Entry struct {
	Src      string        `json:"src,omitempty"` // for file-like sources: relative to the case root (made absolute at render time unless RelSrc); for symlinks: literal target
	Dst      string        `json:"dst"`
	Type     string        `json:"type,omitempty"`
	Packager string        `json:"packager,omitempty"`
	FI       *FileInfoSpec `json:"file_info,omitempty"`
	Expand   bool          `json:"expand,omitempty"`
	Form     string        `json:"form,omitempty"` // generator's note: single|dir|dirslash|glob|tree|none
}

func (e Entry) isFileLike() bool {
	switch e.Type {
	case "", "file", "config", "config|noreplace", "config|missingok":
		return true
	}
	return false
}

func (e Entry) isConfig() bool {
	return strings.HasPrefix(e.Type, "config")
}

func (e Entry) isRPMOnly() bool {
	switch e.Type {
	case "ghost", "doc", "licence", "license", "readme":
		return true
	}
	return false
}

func (e Entry) srcOnDisk() bool {
	switch e.Type {
	case "symlink", "ghost":
		return false
	case "dir":
		return e.Src != "" // a directory of the build environment to take mode and mtime from
	}
	return true
}

type Meta struct {
	Name            string   `json:"name"`
	Arch            string   `json:"arch"`
	Platform        string   `json:"platform,omitempty"`
	Epoch           string   `json:"epoch,omitempty"`
	Version         string   `json:"version"`
	VersionSchema   string   `json:"version_schema,omitempty"`
	Release         string   `json:"release,omitempty"`
	PlainNumbers    bool     `json:"plain_numbers,omitempty"` // write numeric epoch/release/prerelease/metadata as YAML numbers
	Prerelease      string   `json:"prerelease,omitempty"`
	VersionMetadata string   `json:"version_metadata,omitempty"`
	EmbedPre        bool     `json:"embed_pre,omitempty"`  // the prerelease is written inside the version string, not as its own key
	EmbedMeta       bool     `json:"embed_meta,omitempty"` // same for the build metadata
	VPrefix         bool     `json:"v_prefix,omitempty"`   // the version string carries a leading 'v'
	Section         string   `json:"section,omitempty"`
	Priority        string   `json:"priority,omitempty"`
	Maintainer      string   `json:"maintainer,omitempty"`
	Description     string   `json:"description,omitempty"`
	Vendor          string   `json:"vendor,omitempty"`
	Homepage        string   `json:"homepage,omitempty"`
	License         string   `json:"license,omitempty"`
	Replaces        []string `json:"replaces,omitempty"`
	Provides        []string `json:"provides,omitempty"`
	Depends         []string `json:"depends,omitempty"`
	Recommends      []string `json:"recommends,omitempty"`
	Suggests        []string `json:"suggests,omitempty"`
	Conflicts       []string `json:"conflicts,omitempty"`
}

// BuildCase is the plain-data description of one packaging run: a source tree, a
// configuration and the formats to build. It serialises to JSON (= replay file).
type BuildCase struct {
	Meta            Meta              `json:"meta"`
	Tree            []FNode           `json:"tree"`
	Contents        []Entry           `json:"contents"`
	Umask           uint32            `json:"umask,omitempty"`
	MTime           int64             `json:"mtime,omitempty"` // package mtime, 0 = unset
	DisableGlobbing bool              `json:"disable_globbing,omitempty"`
	DebCompression  string            `json:"deb_compression,omitempty"`
	RPMCompression  string            `json:"rpm_compression,omitempty"`
	RPMBuildHost    string            `json:"rpm_buildhost,omitempty"`
	Scripts         map[string]string `json:"scripts,omitempty"`          // slot -> Rel of a tree node; slots: preinstall, ..., rpm.pretrans, deb.rules, apk.preupgrade, archlinux.postupgrade
	Changelog       string            `json:"changelog,omitempty"`        // Rel of tree node with chglog yaml
	Extra           map[string]any    `json:"extra,omitempty"`            // extra top-level YAML (format blocks etc.), merged in
	X               *Extras           `json:"x,omitempty"`                // typed format-specific blocks
	Constraints     bool              `json:"constraints,omitempty"`      // decorate every second relation item with a version constraint in the target format's syntax
	Signed          bool              `json:"signed,omitempty"`           // sign deb, rpm and apk with the harness' unprotected test keys
	MTimeEpoch      bool              `json:"mtime_epoch,omitempty"`      // package mtime is exactly 1970-01-01T00:00:00Z (MTime must be 0)
	TreeOwnerProbe  bool              `json:"tree_owner_probe,omitempty"` // C01: the directed probe "tree with an owner at a well-known directory"
	ManyFilesProbe  bool              `json:"many_files_probe,omitempty"` // C01: the directed probe "more files than may be open at once" (CLI under ulimit -n)
	Again           bool              `json:"again,omitempty"`            // C01: package the same tree a second time under another umask
	Formats         []string          `json:"formats,omitempty"`
	RelSrc          bool              `json:"rel_src,omitempty"` // reference sources by relative path (needs cwd = root)
}

type IPKAlt struct {
	Priority int    `json:"priority"`
	Target   string `json:"target"`
	LinkName string `json:"link_name"`
}

// Extras are the format-specific settings of a configuration.
type Extras struct {
	DebArch, RPMArch, APKArch, ArchArch, IPKArch string              `json:",omitempty"`
	DebFields                                    map[string]string   `json:",omitempty"`
	DebTriggers                                  map[string][]string `json:",omitempty"` // yaml key -> names
	DebBreaks, DebPredepends                     []string            `json:",omitempty"`
	RPMGroup, RPMSummary, RPMPackager            string              `json:",omitempty"`
	RPMPrefixes                                  []string            `json:",omitempty"`
	IPKABI                                       string              `json:",omitempty"`
	IPKAlternatives                              []IPKAlt            `json:",omitempty"`
	IPKTags, IPKPredepends                       []string            `json:",omitempty"`
	IPKFields                                    map[string]string   `json:",omitempty"`
	IPKEssential, IPKAutoInstalled               bool                `json:",omitempty"`
	ArchPkgbase, ArchPackager                    string              `json:",omitempty"`
}

// Constrain returns relation item i of a list decorated for format f.
func Constrain(item string, i int, f string) string {
	if i%2 == 1 {
		return item
	}
	ver := fmt.Sprintf("%d.%d", i+1, i)
	switch f {
	case "deb", "ipk":
		return fmt.Sprintf("%s (>= %s)", item, ver)
	case "rpm":
		return fmt.Sprintf("%s >= %s", item, ver)
	default:
		return fmt.Sprintf("%s>=%s", item, ver)
	}
}

// ForFormat returns the relation lists as configured when building format f.
func (c *BuildCase) rel(list []string, f string) []string {
	if !c.Constraints || f == "" {
		return list
	}
	out := make([]string, len(list))
	for i, it := range list {
		out[i] = Constrain(it, i, f)
	}
	return out
}

func (c *BuildCase) formats() []string {
	if len(c.Formats) == 0 {
		return AllFormats
	}
	return c.Formats
}

// Materialize writes the tree below root. Directories get their mode and mtime
// after all children exist.
func Materialize(root string, tree []FNode) error {
	nodes := append([]FNode(nil), tree...)
	sort.SliceStable(nodes, func(i, j int) bool { return nodes[i].Rel < nodes[j].Rel })
	for _, n := range nodes {
		p := filepath.Join(root, n.Rel)
		if err := os.MkdirAll(filepath.Dir(p), 0o755); err != nil {
			return err
		}
		switch n.Kind {
		case "dir":
			if err := os.MkdirAll(p, 0o755); err != nil {
				return err
			}
		case "symlink":
			if err := os.Symlink(n.Target, p); err != nil {
				return err
			}
		default:
			if err := os.WriteFile(p, n.Content(), 0o600); err != nil {
				return err
			}
		}
	}
	// second pass, deepest first: modes and times
	sort.SliceStable(nodes, func(i, j int) bool { return len(nodes[i].Rel) > len(nodes[j].Rel) })
	for _, n := range nodes {
		p := filepath.Join(root, n.Rel)
		if n.Kind == "symlink" {
			continue
		}
		if n.Mode != 0 {
			if err := os.Chmod(p, goMode(n.Mode)); err != nil {
				return err
			}
		}
		if n.MTime != 0 {
			t := time.Unix(n.MTime, n.NS)
			if err := os.Chtimes(p, t, t); err != nil {
				return err
			}
		}
	}
	return nil
}

// goMode converts a Unix mode (permission bits plus 04000/02000/01000) into Go's os.FileMode.
func goMode(m uint32) os.FileMode {
	fm := os.FileMode(m & 0o777)
	if m&0o4000 != 0 {
		fm |= os.ModeSetuid
	}
	if m&0o2000 != 0 {
		fm |= os.ModeSetgid
	}
	if m&0o1000 != 0 {
		fm |= os.ModeSticky
	}
	return fm
}

func (c *BuildCase) srcPath(root, rel string) string {
	if c.RelSrc {
		return rel
	}
	// keep a trailing slash, filepath.Join would drop it
	p := filepath.Join(root, rel)
	if strings.HasSuffix(rel, "/") {
		p += "/"
	}
	return p
}

func octal(m uint32, alt bool) yaml.Node {
	s := fmt.Sprintf("0%o", m)
	if alt {
		s = fmt.Sprintf("0o%o", m)
	}
	return yaml.Node{Kind: yaml.ScalarNode, Tag: "!!int", Value: s}
}

// ts spells an instant as an RFC 3339 timestamp. The zone it is written in is a function of the instant (so a case
// always renders the same way); the instant itself, which is all a package may record, does not depend on the spelling.
func ts(sec int64) string {
	zones := []*time.Location{time.UTC, time.FixedZone("", 9*3600), time.FixedZone("", -5*3600), time.FixedZone("", 5*3600+1800), time.FixedZone("", -(3*3600 + 1800)), time.UTC, time.UTC}
	i := sec % int64(len(zones))
	if i < 0 {
		i = -i
	}
	return time.Unix(sec, 0).In(zones[i]).Format(time.RFC3339)
}

// ConfigMap renders the case as a generic map (ordered keys do not matter to the parser).
func (c *BuildCase) ConfigMap(root string) map[string]any {
	return c.ConfigMapFor(root, "")
}

// ConfigMapFor renders the configuration used to build format f (relation constraints
// are written in f's syntax when the case asks for constraints).
func (c *BuildCase) ConfigMapFor(root, f string) map[string]any {
	m := map[string]any{}
	put := func(k, v string) {
		if v != "" {
			m[k] = v
		}
	}
	// plain (unquoted) numbers for settings whose value is a canonical decimal number, the way the reference
	// configuration of the documentation writes `epoch: 2` and `release: 1`; the parser reads them as the same strings
	num := func(k, v string) {
		if n, err := strconv.Atoi(v); err == nil && c.Meta.PlainNumbers && strconv.Itoa(n) == v {
			m[k] = n
			return
		}
		put(k, v)
	}
	put("name", c.Meta.Name)
	num("arch", c.Meta.Arch) // 386 is a documented architecture and a YAML number
	put("platform", c.Meta.Platform)
	num("epoch", c.Meta.Epoch)
	vtext := c.Meta.Version
	if c.Meta.VPrefix {
		vtext = "v" + vtext
	}
	if c.Meta.EmbedPre && c.Meta.Prerelease != "" {
		vtext += "-" + c.Meta.Prerelease
	} else {
		num("prerelease", c.Meta.Prerelease)
	}
	if c.Meta.EmbedMeta && c.Meta.VersionMetadata != "" {
		vtext += "+" + c.Meta.VersionMetadata
	} else {
		num("version_metadata", c.Meta.VersionMetadata)
	}
	put("version", vtext)
	put("version_schema", c.Meta.VersionSchema)
	num("release", c.Meta.Release)
	put("section", c.Meta.Section)
	put("priority", c.Meta.Priority)
	put("maintainer", c.Meta.Maintainer)
	put("description", c.Meta.Description)
	put("vendor", c.Meta.Vendor)
	put("homepage", c.Meta.Homepage)
	put("license", c.Meta.License)
	lst := func(k string, v []string) {
		if len(v) > 0 {
			m[k] = c.rel(v, f)
		}
	}
	lst("replaces", c.Meta.Replaces)
	lst("provides", c.Meta.Provides)
	lst("depends", c.Meta.Depends)
	lst("recommends", c.Meta.Recommends)
	lst("suggests", c.Meta.Suggests)
	lst("conflicts", c.Meta.Conflicts)
	if c.Umask != 0 {
		n := octal(c.Umask, true)
		m["umask"] = &n
	}
	if c.MTime != 0 || c.MTimeEpoch {
		m["mtime"] = ts(c.MTime)
	}
	if c.DisableGlobbing {
		m["disable_globbing"] = true
	}
	var contents []any
	for i, e := range c.Contents {
		em := map[string]any{"dst": e.Dst}
		if e.Src != "" {
			if e.srcOnDisk() {
				em["src"] = c.srcPath(root, e.Src)
			} else {
				em["src"] = e.Src
			}
		}
		if e.Type != "" {
			em["type"] = e.Type
		}
		if e.Packager != "" {
			em["packager"] = e.Packager
		}
		if e.Expand {
			em["expand"] = true
		}
		if e.FI != nil {
			fi := map[string]any{}
			if e.FI.Owner != "" {
				fi["owner"] = e.FI.Owner
			}
			if e.FI.Group != "" {
				fi["group"] = e.FI.Group
			}
			if e.FI.Mode != 0 {
				n := octal(e.FI.Mode, i%2 == 0)
				fi["mode"] = &n
			}
			if e.FI.MTime != 0 {
				fi["mtime"] = ts(e.FI.MTime)
			}
			em["file_info"] = fi
		}
		contents = append(contents, em)
	}
	if len(contents) > 0 {
		m["contents"] = contents
	}
	sub := func(parent map[string]any, k string) map[string]any {
		if v, ok := parent[k].(map[string]any); ok {
			return v
		}
		v := map[string]any{}
		parent[k] = v
		return v
	}
	// deep-merge Extra first so explicit fields win
	for k, v := range c.Extra {
		m[k] = deepCopyAny(v)
	}
	if x := c.X; x != nil {
		ps := func(blk, k, v string) {
			if v != "" {
				sub(m, blk)[k] = v
			}
		}
		pl := func(blk, k string, v []string, constrain bool) {
			if len(v) > 0 {
				if constrain {
					v = c.rel(v, f)
				}
				sub(m, blk)[k] = v
			}
		}
		ps("deb", "arch", x.DebArch)
		ps("rpm", "arch", x.RPMArch)
		ps("apk", "arch", x.APKArch)
		ps("archlinux", "arch", x.ArchArch)
		ps("ipk", "arch", x.IPKArch)
		if len(x.DebFields) > 0 {
			sub(m, "deb")["fields"] = x.DebFields
		}
		for k, v := range x.DebTriggers {
			if len(v) > 0 {
				sub(sub(m, "deb"), "triggers")[k] = v
			}
		}
		pl("deb", "breaks", x.DebBreaks, true)
		pl("deb", "predepends", x.DebPredepends, true)
		ps("rpm", "group", x.RPMGroup)
		ps("rpm", "summary", x.RPMSummary)
		ps("rpm", "packager", x.RPMPackager)
		pl("rpm", "prefixes", x.RPMPrefixes, false)
		ps("ipk", "abi_version", x.IPKABI)
		if len(x.IPKAlternatives) > 0 {
			var alts []any
			for _, a := range x.IPKAlternatives {
				alts = append(alts, map[string]any{"priority": a.Priority, "target": a.Target, "link_name": a.LinkName})
			}
			sub(m, "ipk")["alternatives"] = alts
		}
		pl("ipk", "tags", x.IPKTags, false)
		pl("ipk", "predepends", x.IPKPredepends, true)
		if len(x.IPKFields) > 0 {
			sub(m, "ipk")["fields"] = x.IPKFields
		}
		if x.IPKEssential {
			sub(m, "ipk")["essential"] = true
		}
		if x.IPKAutoInstalled {
			sub(m, "ipk")["auto_installed"] = true
		}
		ps("archlinux", "pkgbase", x.ArchPkgbase)
		ps("archlinux", "packager", x.ArchPackager)
	}
	if c.Signed {
		kd := os.Getenv("VERIF_KEYS")
		if kd == "" {
			kd = filepath.Join(verifDir(), "harness", "testdata", "keys")
		}
		sub(sub(m, "deb"), "signature")["key_file"] = filepath.Join(kd, "pgp-primary.sec.asc")
		sub(sub(m, "rpm"), "signature")["key_file"] = filepath.Join(kd, "pgp-subkey.sec.gpg")
		apkKey := "rsa-a.pkcs1.pem"
		if len(c.Meta.Name)%2 == 0 {
			apkKey = "rsa-4096.pkcs8.pem" // 512-byte signatures: a tar block multiple
		}
		sub(sub(m, "apk"), "signature")["key_file"] = filepath.Join(kd, apkKey)
		sub(sub(m, "apk"), "signature")["key_name"] = "verif-test"
	}
	if c.DebCompression != "" {
		sub(m, "deb")["compression"] = c.DebCompression
	}
	if c.RPMCompression != "" {
		sub(m, "rpm")["compression"] = c.RPMCompression
	}
	if c.RPMBuildHost != "" {
		sub(m, "rpm")["buildhost"] = c.RPMBuildHost
	}
	for _, slot := range sortedKeys(c.Scripts) {
		p := c.srcPath(root, c.Scripts[slot])
		if i := strings.IndexByte(slot, '.'); i >= 0 {
			sub(sub(m, slot[:i]), "scripts")[slot[i+1:]] = p
		} else {
			sub(m, "scripts")[slot] = p
		}
	}
	if c.Changelog != "" {
		m["changelog"] = c.srcPath(root, c.Changelog)
	}
	return m
}

func deepCopyAny(v any) any {
	switch x := v.(type) {
	case map[string]any:
		o := map[string]any{}
		for k, vv := range x {
			o[k] = deepCopyAny(vv)
		}
		return o
	case []any:
		o := make([]any, len(x))
		for i := range x {
			o[i] = deepCopyAny(x[i])
		}
		return o
	}
	return v
}

func (c *BuildCase) YAML(root string) []byte { return c.YAMLFor(root, "") }

func (c *BuildCase) YAMLFor(root, f string) []byte {
	b, err := yaml.Marshal(c.ConfigMapFor(root, f))
	if err != nil {
		panic(err)
	}
	return b
}

func noEnv(string) string { return "" }

// ParseConfig parses the rendered YAML exactly as the CLI would (minus the process environment).
func (c *BuildCase) ParseConfig(root string) (nfpm.Config, error) {
	return c.ParseConfigFor(root, "")
}

func (c *BuildCase) ParseConfigFor(root, f string) (nfpm.Config, error) {
	return nfpm.ParseWithEnvMapping(bytes.NewReader(c.YAMLFor(root, f)), noEnv)
}

// BuildOne packages one format from a freshly parsed configuration, following the
// same steps as `nfpm package`.
func (c *BuildCase) BuildOne(root, format string) ([]byte, error) {
	cfg, err := c.ParseConfigFor(root, format)
	if err != nil {
		return nil, fmt.Errorf("parse: %w", err)
	}
	return PackageFromConfig(&cfg, format)
}

func PackageFromConfig(cfg *nfpm.Config, format string) (out []byte, err error) {
	defer func() {
		if r := recover(); r != nil {
			err = fmt.Errorf("PANIC in nfpm: %v", r)
		}
	}()
	info, err := cfg.Get(format)
	if err != nil {
		return nil, fmt.Errorf("get: %w", err)
	}
	info = nfpm.WithDefaults(info)
	p, err := nfpm.Get(format)
	if err != nil {
		return nil, err
	}
	var buf bytes.Buffer
	if err := p.Package(info, &buf); err != nil {
		return nil, fmt.Errorf("package: %w", err)
	}
	return buf.Bytes(), nil
}

// withRoot materialises the case in a fresh temp dir and calls f.
func (c *BuildCase) withRoot(f func(root string) error) error {
	root, err := os.MkdirTemp(scratchBase(), "case")
	if err != nil {
		return err
	}
	defer func() {
		// directories may have been made unwritable
		_ = filepath.Walk(root, func(p string, fi os.FileInfo, err error) error {
			if err == nil && fi.IsDir() {
				_ = os.Chmod(p, 0o755)
			}
			return nil
		})
		_ = os.RemoveAll(root)
	}()
	// resolve symlinks in the temp dir name so absolute and relative references agree
	if r, err := filepath.EvalSymlinks(root); err == nil {
		root = r
	}
	if err := Materialize(root, c.Tree); err != nil {
		return fmt.Errorf("materialize: %w", err)
	}
	return f(root)
}

func scratchBase() string {
	if d := os.Getenv("VERIF_SCRATCH"); d != "" {
		return d
	}
	return ""
}
