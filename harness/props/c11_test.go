package props

import (
	"bytes"
	"encoding/json"
	"fmt"
	"os"
	"path/filepath"
	"reflect"
	"sort"
	"strings"
	"sync"
	"sync/atomic"
	"testing"

	"github.com/goreleaser/nfpm/v2"
	"pgregory.net/rapid"
)

// deepDump renders every exported field reachable from v (following pointers, slices and
// maps with sorted keys; functions are reported as nil/non-nil only).
func deepDump(v reflect.Value, b *strings.Builder, depth int) {
	if depth > 20 {
		b.WriteString("<deep>")
		return
	}
	switch v.Kind() {
	case reflect.Ptr, reflect.Interface:
		if v.IsNil() {
			b.WriteString("nil")
			return
		}
		b.WriteString("&")
		deepDump(v.Elem(), b, depth+1)
	case reflect.Struct:
		if v.Type() == timeType {
			fmt.Fprintf(b, "%v", v.Interface())
			return
		}
		b.WriteString("{")
		for i := 0; i < v.NumField(); i++ {
			if !v.Type().Field(i).IsExported() {
				continue
			}
			b.WriteString(v.Type().Field(i).Name + ":")
			deepDump(v.Field(i), b, depth+1)
			b.WriteString(" ")
		}
		b.WriteString("}")
	case reflect.Slice:
		if v.Len() == 0 {
			b.WriteString("[]")
			return
		}
		b.WriteString("[")
		for i := 0; i < v.Len(); i++ {
			deepDump(v.Index(i), b, depth+1)
			b.WriteString(",")
		}
		b.WriteString("]")
	case reflect.Map:
		if v.Len() == 0 {
			b.WriteString("map[]")
			return
		}
		keys := v.MapKeys()
		sort.Slice(keys, func(i, j int) bool { return fmt.Sprint(keys[i]) < fmt.Sprint(keys[j]) })
		b.WriteString("map[")
		for _, k := range keys {
			fmt.Fprintf(b, "%v:", k)
			deepDump(v.MapIndex(k), b, depth+1)
			b.WriteString(",")
		}
		b.WriteString("]")
	case reflect.Func:
		fmt.Fprintf(b, "func(nil=%v)", v.IsNil())
	default:
		fmt.Fprintf(b, "%#v", v.Interface())
	}
}

func dumpInfo(i *nfpm.Info) string {
	var b strings.Builder
	deepDump(reflect.ValueOf(i), &b, 0)
	return b.String()
}

// firstDiff shows where two dumps diverge.
func firstDiff(a, b string) string {
	n := 0
	for n < len(a) && n < len(b) && a[n] == b[n] {
		n++
	}
	lo := n - 80
	if lo < 0 {
		lo = 0
	}
	hiA, hiB := n+60, n+60
	if hiA > len(a) {
		hiA = len(a)
	}
	if hiB > len(b) {
		hiB = len(b)
	}
	return fmt.Sprintf("...%s[[%s]] vs [[%s]]", a[lo:n], a[n:hiA], b[n:hiB])
}

// Op is one step of a history over a single parsed configuration.
type Op struct {
	Kind   string `json:"kind"` // validate | filename | package
	Format string `json:"format,omitempty"`
}

type HistoryCase struct {
	Case *BuildCase `json:"case"`
	Ops  []Op       `json:"ops"`
}

type baseline struct {
	bytes map[string][]byte
	names map[string]string
	dumps map[string]string
}

func effective(cfg *nfpm.Config, f string) (*nfpm.Info, error) {
	info, err := cfg.Get(f)
	if err != nil {
		return nil, err
	}
	return nfpm.WithDefaults(info), nil
}

func makeBaseline(c *BuildCase, root string) (*baseline, error) {
	b := &baseline{bytes: map[string][]byte{}, names: map[string]string{}, dumps: map[string]string{}}
	for _, f := range AllFormats {
		out, err := c.BuildOne(root, f)
		if err != nil {
			return nil, fmt.Errorf("%s: %w", f, err)
		}
		b.bytes[f] = out
		cfg, err := c.ParseConfig(root)
		if err != nil {
			return nil, err
		}
		info, err := effective(&cfg, f)
		if err != nil {
			return nil, err
		}
		p, _ := nfpm.Get(f)
		b.names[f] = p.ConventionalFileName(info)
		cfg2, _ := c.ParseConfig(root)
		i2, _ := cfg2.Get(f)
		b.dumps[f] = dumpInfo(i2)
	}
	return b, nil
}

func checkHistory(hc *HistoryCase) []Violation {
	var vs []Violation
	err := hc.Case.withRoot(func(root string) error {
		base, bvs := checkedBaseline(hc.Case, root)
		if base == nil {
			vs = bvs
			return nil
		}
		vs = runHistory(hc, root, base)
		return nil
	})
	if err != nil {
		panic(err)
	}
	return vs
}

func checkedBaseline(c *BuildCase, root string) (*baseline, []Violation) {
	var vs vlist
	base, err := makeBaseline(c, root)
	if err != nil {
		vs.add("C11.build", "", "valid configuration rejected on a fresh parse: %v", err)
		return nil, vs
	}
	// reproducibility premise: a second fresh build must equal the first, otherwise the history oracle is meaningless
	for _, f := range AllFormats {
		again, err := c.BuildOne(root, f)
		if err != nil || !bytes.Equal(again, base.bytes[f]) {
			vs.add("C11.baseline-not-reproducible", f, "two fresh builds differ (err %v)", err)
			return nil, vs
		}
	}
	return base, nil
}

func runHistory(hc *HistoryCase, root string, base *baseline) []Violation {
	var vs vlist
	c := hc.Case
	err := func() error {
		cfg, err := c.ParseConfig(root)
		if err != nil {
			return err
		}
		for i, op := range hc.Ops {
			step := fmt.Sprintf("step %d %s(%s) of %v", i, op.Kind, op.Format, opsString(hc.Ops[:i+1]))
			switch op.Kind {
			case "validate":
				if err := cfg.Validate(); err != nil {
					vs.add("C11.validate-error", "", "%s: %v", step, err)
				}
			case "filename":
				info, err := effective(&cfg, op.Format)
				if err != nil {
					vs.add("C11.get-error", op.Format, "%s: %v", step, err)
					break
				}
				p, _ := nfpm.Get(op.Format)
				if n := p.ConventionalFileName(info); n != base.names[op.Format] {
					vs.add("C11.filename-changed", op.Format, "%s: file name %q, a fresh parse gives %q", step, n, base.names[op.Format])
				}
			case "name+package":
				// the file name is asked first and the very same effective settings are then packaged (what the CLI does for a directory target)
				info, err := effective(&cfg, op.Format)
				if err != nil {
					vs.add("C11.get-error", op.Format, "%s: %v", step, err)
					break
				}
				p, _ := nfpm.Get(op.Format)
				if n := p.ConventionalFileName(info); n != base.names[op.Format] {
					vs.add("C11.filename-changed", op.Format, "%s: file name %q, a fresh parse gives %q", step, n, base.names[op.Format])
				}
				var buf bytes.Buffer
				if err := p.Package(info, &buf); err != nil {
					vs.add("C11.package-error", op.Format, "%s: %v", step, err)
				} else if !bytes.Equal(buf.Bytes(), base.bytes[op.Format]) {
					vs.add("C11.package-differs", op.Format, "%s: packaging the settings the file name was asked for differs from a fresh build (%d vs %d bytes)%s", step, buf.Len(), len(base.bytes[op.Format]), describeDiff(op.Format, buf.Bytes(), base.bytes[op.Format]))
				}
			case "package":
				out, err := PackageFromConfig(&cfg, op.Format)
				if err != nil {
					vs.add("C11.package-error", op.Format, "%s: %v", step, err)
					break
				}
				if !bytes.Equal(out, base.bytes[op.Format]) {
					vs.add("C11.package-differs", op.Format, "%s: package differs from the one built from a freshly parsed configuration (%d vs %d bytes)%s", step, len(out), len(base.bytes[op.Format]), describeDiff(op.Format, out, base.bytes[op.Format]))
				}
			}
			for _, g := range AllFormats {
				ig, err := cfg.Get(g)
				if err != nil {
					vs.add("C11.get-error", g, "%s: Get(%s): %v", step, g, err)
					continue
				}
				if d := dumpInfo(ig); d != base.dumps[g] {
					vs.add("C11.settings-changed", g, "%s: effective settings for %s changed: %s", step, g, firstDiff(base.dumps[g], d))
				}
			}
			if len(vs) > 0 {
				break
			}
		}
		return nil
	}()
	if err != nil {
		panic(err)
	}
	return vs
}

func describeDiff(f string, a, b []byte) string {
	da, err1 := Decode(f, a)
	db, err2 := Decode(f, b)
	if err1 != nil || err2 != nil || da == nil || db == nil {
		return ""
	}
	if da.ControlText != db.ControlText {
		return fmt.Sprintf("; control metadata differs: %q vs %q", da.ControlText, db.ControlText)
	}
	for i := range da.Payload {
		if i < len(db.Payload) {
			x, y := da.Payload[i], db.Payload[i]
			if x.Abs != y.Abs || x.Mode != y.Mode || x.Owner != y.Owner || x.MTime != y.MTime || !bytes.Equal(x.Data, y.Data) {
				return fmt.Sprintf("; payload entry %d differs: %s mode %o owner %s mtime %d vs %s mode %o owner %s mtime %d", i, x.Abs, x.Mode, x.Owner, x.MTime, y.Abs, y.Mode, y.Owner, y.MTime)
			}
		}
	}
	return ""
}

func opsString(ops []Op) string {
	var s []string
	for _, o := range ops {
		if o.Format == "" {
			s = append(s, o.Kind)
		} else {
			s = append(s, o.Kind[:1]+":"+o.Format)
		}
	}
	return "[" + strings.Join(s, " ") + "]"
}

// genRichCase: a reproducible configuration with pointee data (file_info, fields maps,
// changelog, scripts, overrides).
func genRichCase(t *rapid.T) *BuildCase {
	o := c01Opts
	o.maxEntries = 6
	c := genBuildCase(t, o)
	genFullMeta(t, c)
	c.Meta.Platform = ""
	c.Meta.Arch = rapid.SampledFrom(docArches).Draw(t, "arch2")
	if c.X != nil {
		c.X.DebArch, c.X.RPMArch, c.X.APKArch, c.X.ArchArch, c.X.IPKArch = "", "", "", "", ""
	}
	c.Constraints = false // one configuration serves all formats in a history
	// scalars in a spelling that is valid but not canonical: an operation that "normalises" one in place is a
	// cross-operation effect, whatever the normal form
	if c.Meta.Epoch != "" && rapid.IntRange(0, 1).Draw(t, "epoch-leading-zeros") == 0 {
		c.Meta.Epoch = rapid.SampledFrom([]string{"0", "00"}).Draw(t, "epoch-zeros") + c.Meta.Epoch
	}
	if c.Meta.Release != "" && rapid.IntRange(0, 2).Draw(t, "release-leading-zero") == 0 {
		c.Meta.Release = "0" + c.Meta.Release
	}
	// relation items with blanks (a spelling every format accepts)
	for _, l := range []*[]string{&c.Meta.Depends, &c.Meta.Conflicts, &c.Meta.Provides, &c.Meta.Replaces} {
		for i := range *l {
			if rapid.IntRange(0, 2).Draw(t, "relblank") == 0 {
				(*l)[i] += rapid.SampledFrom([]string{" >= 1.2", " < 2.0", " = 1.0-1"}).Draw(t, "relop")
			}
		}
	}
	for i := range c.Tree {
		if c.Tree[i].Size > 6000 {
			c.Tree[i].Size = c.Tree[i].Size % 6000 // histories repeat every build many times: keep payloads small
		}
	}
	if c.RPMCompression == "xz" || c.RPMCompression == "lzma" || c.RPMCompression == "zstd:19" {
		c.RPMCompression = "gzip:1"
	}
	c.MTime = genMTime(t, "pkgmtime2")
	c.RPMBuildHost = "buildhost.example"
	genSimpleScripts(t, c)
	if rapid.Bool().Draw(t, "changelog?") {
		addChangelog(c, rapid.IntRange(0, 3).Draw(t, "changelog.n"))
	}
	if rapid.Bool().Draw(t, "overrides?") {
		ov := map[string]any{}
		for _, f := range AllFormats {
			if rapid.IntRange(0, 2).Draw(t, "ov."+f) == 0 {
				ov[f] = map[string]any{"depends": []any{"ovdep-" + f}, "suggests": []any{"ovsug-" + f}}
			}
		}
		if len(ov) > 0 {
			if c.Extra == nil {
				c.Extra = map[string]any{}
			}
			c.Extra["overrides"] = ov
		}
	}
	return c
}

func hasPointeeData(c *BuildCase) bool {
	for _, e := range c.Contents {
		if e.FI != nil {
			return true
		}
	}
	return c.Changelog != "" || c.Extra["overrides"] != nil || (c.X != nil && (len(c.X.DebFields) > 0 || len(c.X.IPKFields) > 0))
}

func nontrivialHistory(hc *HistoryCase) bool {
	fs := map[string]bool{}
	for _, o := range hc.Ops {
		if o.Kind == "package" || o.Kind == "name+package" {
			fs[o.Format] = true
		}
	}
	return len(fs) >= 2 && hasPointeeData(hc.Case)
}

func TestC11(t *testing.T) {
	st := newStats("C11")
	defer st.Flush()
	var rc HistoryCase
	if replayCase(&rc) {
		st.Record(&rc, true, "replay")
		st.Report(t, &rc, checkHistory(&rc))
		return
	}
	// all 120 orders of the five packagings, for K generated configurations
	k := 3
	if thorough() {
		k = 24
	}
	perms := permutations(5)
	nOrders := 0
	caseGen := rapid.Custom(genRichCase)
	seedBase := envInt("VERIF_SEED", 0)*1000 + envInt("VERIF_SHARD", 0)*100
	for ci := 0; ci < k; ci++ {
		c := caseGen.Example(seedBase + ci)
		err := c.withRoot(func(root string) error {
			base, bvs := checkedBaseline(c, root)
			if base == nil {
				st.Report(t, &HistoryCase{Case: c}, bvs)
				return nil
			}
			for _, perm := range perms {
				var ops []Op
				for _, i := range perm {
					ops = append(ops, Op{Kind: "package", Format: AllFormats[i]})
				}
				hc := &HistoryCase{Case: c, Ops: ops}
				st.Record(map[string]any{"order": opsString(hc.Ops), "case": caseHash(c)}, hasPointeeData(c), "all-orders")
				nOrders++
				st.Report(t, hc, runHistory(hc, root, base))
			}
			return nil
		})
		if err != nil {
			t.Fatal(err)
		}
	}
	st.Exhaustive["orders of the five packagings x configurations"] = nOrders
	// every documented architecture x format: the file name is asked first, then the same settings are packaged, twice
	nArch := 0
	for _, a := range docArches {
		c := metaBaseCase()
		c.Meta = Meta{Name: "archseq", Arch: a, Version: "1.0.0", Maintainer: "V <v@example.com>", Description: "d"}
		var ops []Op
		for _, f := range AllFormats {
			ops = append(ops, Op{Kind: "name+package", Format: f}, Op{Kind: "name+package", Format: f}, Op{Kind: "filename", Format: f})
		}
		hc := &HistoryCase{Case: c, Ops: ops}
		st.Record(map[string]any{"arch-sequence": a}, true, "arch-name-then-package")
		nArch += len(AllFormats)
		st.Report(t, hc, checkHistory(hc))
	}
	st.Exhaustive["architecture x format: file name then package on the same settings"] = nArch
	rapid.Check(t, func(rt *rapid.T) {
		c := genRichCase(rt)
		var ops []Op
		n := rapid.IntRange(1, 8).Draw(rt, "nops")
		for i := 0; i < n; i++ {
			kind := rapid.SampledFrom([]string{"package", "package", "package", "filename", "validate", "name+package"}).Draw(rt, fmt.Sprintf("op%d", i))
			op := Op{Kind: kind}
			if kind != "validate" {
				op.Format = rapid.SampledFrom(AllFormats).Draw(rt, fmt.Sprintf("fmt%d", i))
			}
			ops = append(ops, op)
		}
		hc := &HistoryCase{Case: c, Ops: ops}
		labels := []string{"random-history", fmt.Sprintf("len:%d", len(ops))}
		if hasPointeeData(c) {
			labels = append(labels, "pointee-data")
		}
		st.Record(hc, nontrivialHistory(hc), labels...)
		st.Report(rt, hc, checkHistory(hc))
	})
}

// ---------- C12: concurrent packaging ----------

type FleetCase struct {
	Case    *BuildCase `json:"case"`
	Shared  bool       `json:"shared"`  // goroutines share one parsed configuration (one format each)
	Workers []string   `json:"workers"` // format per goroutine
	Spin    []int      `json:"spin"`    // busy-loop iterations before each goroutine starts working
	Reps    int        `json:"reps"`
}

func journal(v any) {
	d := os.Getenv("VERIF_SCRATCH")
	if d == "" {
		return
	}
	b, _ := json.MarshalIndent(map[string]any{"property": "C12", "case": v}, "", " ")
	_ = os.WriteFile(filepath.Join(d, "current_case.json"), b, 0o644)
}

var spinSink atomic.Int64

func checkFleet(fc *FleetCase) []Violation {
	var vs vlist
	c := fc.Case
	journal(fc)
	err := c.withRoot(func(root string) error {
		base := map[string][]byte{}
		for _, f := range AllFormats {
			out, err := c.BuildOne(root, f)
			if err != nil {
				vs.add("C12.build", f, "valid configuration rejected sequentially: %v", err)
				return nil
			}
			base[f] = out
		}
		for rep := 0; rep < fc.Reps; rep++ {
			var shared *nfpm.Config
			if fc.Shared {
				cfg, err := c.ParseConfig(root)
				if err != nil {
					return err
				}
				shared = &cfg
			}
			outs := make([][]byte, len(fc.Workers))
			errs := make([]error, len(fc.Workers))
			var wg sync.WaitGroup
			start := make(chan struct{})
			for i, f := range fc.Workers {
				wg.Add(1)
				go func(i int, f string) {
					defer wg.Done()
					cfg := shared
					if cfg == nil {
						own, err := c.ParseConfig(root)
						if err != nil {
							errs[i] = err
							return
						}
						cfg = &own
					}
					<-start
					x := 0
					for k := 0; k < fc.Spin[i]; k++ {
						x += k
					}
					spinSink.Add(int64(x))
					outs[i], errs[i] = PackageFromConfig(cfg, f)
				}(i, f)
			}
			close(start)
			wg.Wait()
			for i, f := range fc.Workers {
				if errs[i] != nil {
					vs.add("C12.concurrent-error", f, "repetition %d, worker %d: %v", rep, i, errs[i])
				} else if !bytes.Equal(outs[i], base[f]) {
					vs.add("C12.concurrent-differs", f, "repetition %d, worker %d: output differs from the sequential build (%d vs %d bytes)%s", rep, i, len(outs[i]), len(base[f]), describeDiff(f, outs[i], base[f]))
				}
			}
			if len(vs) > 0 {
				break
			}
		}
		return nil
	})
	if err != nil {
		panic(err)
	}
	return vs
}

func TestC12(t *testing.T) {
	st := newStats("C12")
	defer st.Flush()
	var rc FleetCase
	if replayCase(&rc) {
		st.Record(&rc, true, "replay")
		st.Report(t, &rc, checkFleet(&rc))
		return
	}
	reps := 4
	if thorough() {
		reps = 12
	}
	// systematic sweep: for every format and compressor a fleet of independent builds of that one kind
	// (exposes state shared between builds of the same packager, e.g. pooled encoders)
	caseGen := rapid.Custom(genRichCase)
	sweep := []struct{ f, deb, rpm string }{
		{"deb", "gzip", ""}, {"deb", "xz", ""}, {"deb", "zstd", ""}, {"deb", "none", ""},
		{"rpm", "", "gzip"}, {"rpm", "", "xz"}, {"rpm", "", "lzma"}, {"rpm", "", "zstd"},
		{"apk", "", ""}, {"archlinux", "", ""}, {"ipk", "", ""},
	}
	for i, sw := range sweep {
		c := caseGen.Example(envInt("VERIF_SEED", 0)*100 + envInt("VERIF_SHARD", 0)*10 + i%3)
		c.DebCompression, c.RPMCompression = sw.deb, sw.rpm
		// payloads large enough to keep the compressors busy while the others run
		c.Tree = append(c.Tree, FNode{Rel: "src/bulk", Kind: "file", Size: 150000, Seed: 7 + i, Mode: 0o644, MTime: 900000000})
		c.Contents = append(c.Contents, Entry{Src: "src/bulk", Dst: "/opt/bulk/data", Form: "single"})
		fc := &FleetCase{Case: c, Reps: reps}
		for k := 0; k < 6; k++ {
			fc.Workers = append(fc.Workers, sw.f)
			fc.Spin = append(fc.Spin, []int{0, 0, 100, 10000, 0, 200000}[k])
		}
		st.Record(fc, true, "same-format-fleet", "sweep:"+sw.f+"/"+sw.deb+sw.rpm)
		st.Report(t, fc, checkFleet(fc))
	}
	st.Exhaustive["same-format fleets: format x compressor"] = len(sweep)
	// directed shared-configuration fleets: every entry type once with a complete file_info (nothing left to default)
	// and once without, all five formats concurrently from ONE parsed configuration
	for v := 0; v < 2; v++ {
		full := &FileInfoSpec{Owner: "svc", Group: "svc", Mode: 0o750, MTime: 1100000000 + int64(v)}
		c := &BuildCase{
			Meta:  Meta{Name: "sharedfleet", Arch: "amd64", Version: "1.0.0", Maintainer: "V <v@example.com>", Description: "d"},
			MTime: 1000000000, RPMBuildHost: "h",
			Tree: []FNode{
				{Rel: "src/t", Kind: "dir", Mode: 0o755, MTime: 900000000},
				{Rel: "src/t/a", Kind: "file", Size: 40000, Seed: 5 + v, Mode: 0o644, MTime: 900000001},
				{Rel: "src/t/sub", Kind: "dir", Mode: 0o750, MTime: 900000002},
				{Rel: "src/t/sub/b", Kind: "file", Size: 9000, Seed: 6 + v, Mode: 0o600, MTime: 900000003},
				{Rel: "src/f", Kind: "file", Size: 120000, Seed: 7 + v, Mode: 0o644, MTime: 900000004},
			},
		}
		for i, typ := range []string{"dir", "symlink", "ghost", "doc", "file", "config", "tree"} {
			for j, fi := range []*FileInfoSpec{full, nil} {
				e := Entry{Type: typ, Dst: fmt.Sprintf("/opt/fleet/%s%d", strings.ReplaceAll(typ, "|", ""), j), FI: fi, Form: "none"}
				switch typ {
				case "symlink":
					e.Src = "/opt/fleet/target"
				case "doc", "file", "config":
					e.Src, e.Form = "src/f", "single"
				case "tree":
					e.Src, e.Form = "src/t", "tree"
					if fi != nil {
						e.FI = &FileInfoSpec{Owner: "svc", Group: "svc", Mode: 0o750}
					}
				}
				_ = i
				c.Contents = append(c.Contents, e)
			}
		}
		fc := &FleetCase{Case: c, Shared: true, Reps: reps + 2, Workers: append([]string(nil), AllFormats...), Spin: []int{0, 0, 0, 0, 0}}
		st.Record(fc, true, "directed-shared-fleet")
		st.Report(t, fc, checkFleet(fc))
	}
	rapid.Check(t, func(rt *rapid.T) {
		c := genRichCase(rt)
		fc := &FleetCase{Case: c, Shared: rapid.Bool().Draw(rt, "shared"), Reps: reps}
		if fc.Shared {
			fc.Workers = rapid.Permutation(AllFormats).Draw(rt, "formats")
			fc.Workers = fc.Workers[:rapid.IntRange(2, 5).Draw(rt, "nshared")]
		} else {
			n := rapid.IntRange(2, 8).Draw(rt, "nworkers")
			for i := 0; i < n; i++ {
				fc.Workers = append(fc.Workers, rapid.SampledFrom(AllFormats).Draw(rt, fmt.Sprintf("wf%d", i)))
			}
		}
		for i := range fc.Workers {
			fc.Spin = append(fc.Spin, rapid.SampledFrom([]int{0, 0, 100, 10000, 200000}).Draw(rt, fmt.Sprintf("spin%d", i)))
		}
		distinct := map[string]bool{}
		for _, f := range fc.Workers {
			distinct[f] = true
		}
		labels := []string{fmt.Sprintf("shared:%v", fc.Shared), fmt.Sprintf("workers:%d", len(fc.Workers))}
		if hasPointeeData(c) {
			labels = append(labels, "pointee-data")
		}
		st.Record(fc, len(distinct) >= 2 && hasPointeeData(c), labels...)
		st.AddEvals(fc.Reps*len(fc.Workers) - 1) // concurrent builds executed for this fleet
		st.Report(rt, fc, checkFleet(fc))
	})
}
