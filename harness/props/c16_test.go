package props

import (
	"encoding/json"
	"fmt"
	"os"
	"path/filepath"
	"reflect"
	"regexp"
	"sort"
	"strings"
	"testing"

	"github.com/goreleaser/nfpm/v2"
	"gopkg.in/yaml.v3"
	"pgregory.net/rapid"
)

// ---------- key paths of the configuration by reflection ----------

type keyPath struct {
	Segs []string // "[]" = list element
	Type reflect.Type
	Leaf bool
	Enum string // first value of the enumeration the field's jsonschema tag documents, if any
}

// sample is a value of the right shape for the key path; for enumerated settings a documented value, so that a
// control document is never refused for its value (only key paths are under test).
func (k keyPath) sample() any {
	if k.Enum != "" && k.Type.Kind() == reflect.String {
		return k.Enum
	}
	return sampleValue(k.Type)
}

func firstEnum(tag string) string {
	for _, part := range strings.Split(tag, ",") {
		if strings.HasPrefix(part, "enum=") {
			return strings.TrimPrefix(part, "enum=")
		}
	}
	return ""
}

func (k keyPath) String() string { return strings.Join(k.Segs, ".") }

func yamlName(f reflect.StructField) (name string, inline, skip bool) {
	tag := f.Tag.Get("yaml")
	parts := strings.Split(tag, ",")
	if parts[0] == "-" {
		return "", false, true
	}
	for _, p := range parts[1:] {
		if p == "inline" {
			inline = true
		}
	}
	name = parts[0]
	if name == "" && !inline {
		name = strings.ToLower(f.Name)
	}
	return name, inline, false
}

func collectKeyPaths(t reflect.Type, prefix []string, out *[]keyPath) {
	for i := 0; i < t.NumField(); i++ {
		f := t.Field(i)
		if !f.IsExported() {
			continue
		}
		name, inline, skip := yamlName(f)
		if skip {
			continue
		}
		ft := f.Type
		if inline {
			collectKeyPaths(ft, prefix, out)
			continue
		}
		p := append(append([]string(nil), prefix...), name)
		n0 := len(*out)
		addType(ft, p, out)
		if e := firstEnum(f.Tag.Get("jsonschema")); e != "" && len(*out) == n0+1 {
			(*out)[n0].Enum = e
		}
	}
}

func addType(ft reflect.Type, p []string, out *[]keyPath) {
	switch {
	case ft.Kind() == reflect.Ptr && ft.Elem().Kind() == reflect.Struct:
		*out = append(*out, keyPath{Segs: p, Type: ft})
		collectKeyPaths(ft.Elem(), p, out)
	case ft.Kind() == reflect.Struct && ft != timeType:
		*out = append(*out, keyPath{Segs: p, Type: ft})
		collectKeyPaths(ft, p, out)
	case ft.Kind() == reflect.Map && ft.Elem().Kind() == reflect.Ptr && ft.Elem().Elem().Kind() == reflect.Struct:
		// overrides: one block per format
		*out = append(*out, keyPath{Segs: p, Type: ft})
		for _, f := range AllFormats {
			pp := append(append([]string(nil), p...), f)
			*out = append(*out, keyPath{Segs: pp, Type: ft.Elem()})
			collectKeyPaths(ft.Elem().Elem(), pp, out)
		}
	case ft.Kind() == reflect.Slice && (ft.Elem().Kind() == reflect.Struct || (ft.Elem().Kind() == reflect.Ptr && ft.Elem().Elem().Kind() == reflect.Struct)):
		*out = append(*out, keyPath{Segs: p, Type: ft})
		et := ft.Elem()
		if et.Kind() == reflect.Ptr {
			et = et.Elem()
		}
		collectKeyPaths(et, append(append([]string(nil), p...), "[]"), out)
	default:
		*out = append(*out, keyPath{Segs: p, Type: ft, Leaf: true})
	}
}

func configKeyPaths() []keyPath {
	var out []keyPath
	collectKeyPaths(reflect.TypeOf(nfpm.Config{}), nil, &out)
	return out
}

func sampleValue(t reflect.Type) any {
	switch {
	case t == timeType:
		return "2020-01-02T03:04:05Z"
	case t.Kind() == reflect.String:
		return "val"
	case t.Kind() == reflect.Bool:
		return true
	case t.Kind() == reflect.Int, t.Kind() == reflect.Int64:
		return 7
	case t.Kind() == reflect.Uint32:
		return 0o644
	case t.Kind() == reflect.Slice && t.Elem().Kind() == reflect.String:
		return []any{"item"}
	case t.Kind() == reflect.Map && t.Elem().Kind() == reflect.String:
		return map[string]any{"Any-Key": "v"}
	case t.Kind() == reflect.Ptr && t.Elem().Kind() == reflect.String:
		return "abcd"
	case t.Kind() == reflect.Struct, t.Kind() == reflect.Ptr, t.Kind() == reflect.Map:
		return map[string]any{}
	case t.Kind() == reflect.Slice:
		return []any{}
	}
	panic("no sample value for " + t.String())
}

// docWith builds a configuration document containing the given key path with the given value.
func docWith(segs []string, val any) map[string]any {
	doc := map[string]any{"name": "n", "arch": "amd64", "version": "1.0.0"}
	var set func(m map[string]any, segs []string)
	set = func(m map[string]any, segs []string) {
		k := segs[0]
		if len(segs) == 1 {
			m[k] = val
			return
		}
		if segs[1] == "[]" {
			elem := map[string]any{}
			if k == "contents" {
				elem["dst"] = "/d"
				elem["type"] = "dir"
			}
			if len(segs) > 2 {
				set(elem, segs[2:])
			}
			m[k] = []any{elem}
			return
		}
		sub, ok := m[k].(map[string]any)
		if !ok {
			sub = map[string]any{}
			m[k] = sub
		}
		set(sub, segs[1:])
	}
	set(doc, segs)
	return doc
}

func parseDoc(doc map[string]any, env func(string) string) (nfpm.Config, error) {
	b, err := yaml.Marshal(doc)
	if err != nil {
		panic(err)
	}
	return parseText(string(b), env)
}

func parseText(s string, env func(string) string) (cfg nfpm.Config, err error) {
	defer func() {
		if r := recover(); r != nil {
			err = fmt.Errorf("PANIC in nfpm.Parse: %v", r)
		}
	}()
	return nfpm.ParseWithEnvMapping(strings.NewReader(s), env)
}

// parseDocViaFile parses the document through the file entry point, twice in a row on the same unchanged file: first
// under a decoy mapping, then under env. The mapping is the caller's on every call, so the second result must be the
// one the reader entry point gives under env.
func parseDocViaFile(doc map[string]any, env func(string) string) (cfg nfpm.Config, err error) {
	b, err := yaml.Marshal(doc)
	if err != nil {
		panic(err)
	}
	return parseTextViaFile(string(b), env)
}

func parseTextViaFile(text string, env func(string) string) (cfg nfpm.Config, err error) {
	b := []byte(text)
	f, err := os.CreateTemp(scratchBase(), "c16-*.yaml")
	if err != nil {
		panic(err)
	}
	defer os.Remove(f.Name())
	if _, err := f.Write(b); err != nil {
		panic(err)
	}
	f.Close()
	defer func() {
		if r := recover(); r != nil {
			err = fmt.Errorf("PANIC in nfpm.ParseFileWithEnvMapping: %v", r)
		}
	}()
	if _, err := nfpm.ParseFileWithEnvMapping(f.Name(), func(k string) string { return "decoy-" + k }); err != nil {
		return cfg, fmt.Errorf("under the decoy mapping: %w", err)
	}
	return nfpm.ParseFileWithEnvMapping(f.Name(), env)
}

func misspellings(k string, siblings map[string]bool, foreign []string) []string {
	var out []string
	add := func(s string) {
		if s != k && !siblings[s] {
			out = append(out, s)
		}
	}
	add(k + "x")
	add(k + "s")
	add(strings.ToUpper(k[:1]) + k[1:])
	if strings.Contains(k, "_") {
		add(strings.ReplaceAll(k, "_", "-"))
		add(strings.ReplaceAll(k, "_", ""))
	} else {
		add(k + "_")
	}
	if len(k) > 2 {
		add(k[:len(k)-1])
	}
	for _, f := range foreign {
		add(f)
	}
	return out
}

// ---------- documented expandable fields ----------

type expField struct {
	Path   []string
	DocKey string // the yaml key whose preceding comment block must say it expands env vars
	List   bool
	Get    func(c *nfpm.Config) any
}

func ptrStr(p *string) string {
	if p == nil {
		return "<nil>"
	}
	return *p
}

var expandable = []expField{
	{[]string{"arch"}, "arch:", false, func(c *nfpm.Config) any { return c.Arch }},
	{[]string{"platform"}, "platform:", false, func(c *nfpm.Config) any { return c.Platform }},
	{[]string{"version"}, "version:", false, func(c *nfpm.Config) any { return c.Version }},
	{[]string{"release"}, "release:", false, func(c *nfpm.Config) any { return c.Release }},
	{[]string{"maintainer"}, "maintainer:", false, func(c *nfpm.Config) any { return c.Maintainer }},
	{[]string{"description"}, "description:", false, func(c *nfpm.Config) any { return c.Description }},
	{[]string{"vendor"}, "vendor:", false, func(c *nfpm.Config) any { return c.Vendor }},
	{[]string{"homepage"}, "homepage:", false, func(c *nfpm.Config) any { return c.Homepage }},
	{[]string{"replaces"}, "replaces:", true, func(c *nfpm.Config) any { return c.Replaces }},
	{[]string{"provides"}, "provides:", true, func(c *nfpm.Config) any { return c.Provides }},
	{[]string{"depends"}, "depends:", true, func(c *nfpm.Config) any { return c.Depends }},
	{[]string{"recommends"}, "recommends:", true, func(c *nfpm.Config) any { return c.Recommends }},
	{[]string{"suggests"}, "suggests:", true, func(c *nfpm.Config) any { return c.Suggests }},
	{[]string{"conflicts"}, "conflicts:", true, func(c *nfpm.Config) any { return c.Conflicts }},
	{[]string{"overrides", "deb", "depends"}, "depends:", true, func(c *nfpm.Config) any { return c.Overrides["deb"].Depends }},
	{[]string{"overrides", "rpm", "conflicts"}, "conflicts:", true, func(c *nfpm.Config) any { return c.Overrides["rpm"].Conflicts }},
	{[]string{"overrides", "apk", "provides"}, "provides:", true, func(c *nfpm.Config) any { return c.Overrides["apk"].Provides }},
	{[]string{"overrides", "archlinux", "replaces"}, "replaces:", true, func(c *nfpm.Config) any { return c.Overrides["archlinux"].Replaces }},
	// not marked in the documentation, but expanded by the parser: checked only while a control document shows that they expand
	{[]string{"deb", "predepends"}, "?probe", true, func(c *nfpm.Config) any { return c.Deb.Predepends }},
	{[]string{"ipk", "predepends"}, "?probe", true, func(c *nfpm.Config) any { return c.IPK.Predepends }},
	{[]string{"rpm", "packager"}, "  packager:", false, func(c *nfpm.Config) any { return c.RPM.Packager }},
	{[]string{"rpm", "signature", "key_file"}, "    key_file:", false, func(c *nfpm.Config) any { return c.RPM.Signature.KeyFile }},
	{[]string{"rpm", "signature", "key_id"}, "    key_id:", false, func(c *nfpm.Config) any { return ptrStr(c.RPM.Signature.KeyID) }},
	{[]string{"deb", "signature", "key_file"}, "    key_file:", false, func(c *nfpm.Config) any { return c.Deb.Signature.KeyFile }},
	{[]string{"deb", "signature", "key_id"}, "    key_id:", false, func(c *nfpm.Config) any { return ptrStr(c.Deb.Signature.KeyID) }},
	{[]string{"apk", "signature", "key_file"}, "    key_file:", false, func(c *nfpm.Config) any { return c.APK.Signature.KeyFile }},
	{[]string{"deb", "fields", "Vcs-Browser"}, "  fields:", false, func(c *nfpm.Config) any { return c.Deb.Fields["Vcs-Browser"] }},
}

// docSaysExpandable checks configuration.md still marks the key as expandable: the comment
// block right above some occurrence of the key contains "expand any env var".
func docSaysExpandable(doc string, key string) bool {
	if key == "?probe" {
		return true // decided per field by probeExpands
	}
	lines := strings.Split(doc, "\n")
	for i, l := range lines {
		if !strings.HasPrefix(l, key) {
			continue
		}
		for j := i - 1; j >= 0 && strings.HasPrefix(strings.TrimSpace(lines[j]), "#"); j-- {
			if strings.Contains(lines[j], "expand any env var") {
				return true
			}
		}
	}
	return false
}

// ---------- env templates ----------

type tmplPart struct {
	Lit string `json:"lit,omitempty"`
	Var string `json:"var,omitempty"`
	Br  bool   `json:"br,omitempty"`
}

type Tmpl []tmplPart

func (t Tmpl) Text() string {
	var b strings.Builder
	for _, p := range t {
		switch {
		case p.Var == "":
			b.WriteString(p.Lit)
		case p.Br:
			b.WriteString("${" + p.Var + "}")
		default:
			b.WriteString("$" + p.Var)
		}
	}
	return b.String()
}

func (t Tmpl) Expand(env map[string]string) string {
	var b strings.Builder
	for _, p := range t {
		if p.Var == "" {
			b.WriteString(p.Lit)
		} else {
			b.WriteString(env[p.Var])
		}
	}
	return b.String()
}

func (t Tmpl) HasRef() bool {
	for _, p := range t {
		if p.Var != "" {
			return true
		}
	}
	return false
}

var envNames = []string{"FOO", "BAR", "EMPTY", "UNSET_VAR", "X_1", "lower"}

func genTmpl(t *rapid.T, label string, forceRef bool) Tmpl {
	n := rapid.IntRange(1, 4).Draw(t, label+".n")
	var out Tmpl
	for i := 0; i < n; i++ {
		isVar := rapid.Bool().Draw(t, fmt.Sprintf("%s.var%d", label, i))
		if forceRef && i == 0 {
			isVar = true
		}
		if isVar {
			br := rapid.Bool().Draw(t, fmt.Sprintf("%s.br%d", label, i))
			out = append(out, tmplPart{Var: rapid.SampledFrom(envNames).Draw(t, fmt.Sprintf("%s.name%d", label, i)), Br: br})
			if !br {
				// an unbraced reference ends at the first non-identifier character: separate it from what follows
				out = append(out, tmplPart{Lit: rapid.SampledFrom([]string{"-", "/", ".", " x"}).Draw(t, fmt.Sprintf("%s.sep%d", label, i))})
			}
		} else {
			out = append(out, tmplPart{Lit: rapid.SampledFrom([]string{"lit", "a b", "1.2", "/p/q", "é", ":", "x=y"}).Draw(t, fmt.Sprintf("%s.lit%d", label, i))})
		}
	}
	return out
}

func genEnv(t *rapid.T, label string) map[string]string {
	env := map[string]string{"EMPTY": ""}
	for _, n := range []string{"FOO", "BAR", "X_1", "lower"} {
		if rapid.IntRange(0, 4).Draw(t, label+".set."+n) != 0 {
			env[n] = rapid.SampledFrom([]string{"v1", "two words", "", "  padded  ", "/abs/path", "1.2.3", "$notexpanded", "ü"}).Draw(t, label+".val."+n)
		}
	}
	return env
}

type ExpandCase struct {
	Field    string            `json:"field"`
	Tmpl     Tmpl              `json:"tmpl"`
	ListTmpl []Tmpl            `json:"list_tmpl,omitempty"`
	Env      map[string]string `json:"env"`
	Env2     map[string]string `json:"env2,omitempty"`
}

func mapping(env map[string]string) func(string) string {
	return func(k string) string { return env[k] }
}

// probeExpands: does a list field that the documentation does not mark undergo expansion at all?
func probeExpands(ef *expField) bool {
	cfg, err := parseDoc(docWith(ef.Path, []any{"$PROBE_VAR"}), func(k string) string {
		if k == "PROBE_VAR" {
			return "probe-value"
		}
		return ""
	})
	if err != nil {
		return false
	}
	l, _ := ef.Get(&cfg).([]string)
	return len(l) == 1 && l[0] == "probe-value"
}

func checkExpand(ec *ExpandCase) []Violation {
	var vs vlist
	var ef *expField
	for i := range expandable {
		if strings.Join(expandable[i].Path, ".") == ec.Field {
			ef = &expandable[i]
		}
	}
	if ef == nil {
		panic("unknown field " + ec.Field)
	}
	if ef.DocKey == "?probe" && !probeExpands(ef) {
		return nil // the field is taken literally: nothing is claimed about it
	}
	var val any
	var want any
	if ef.List {
		var items []any
		var w []string
		for _, t := range ec.ListTmpl {
			items = append(items, t.Text())
			if e := strings.TrimSpace(t.Expand(ec.Env)); e != "" {
				w = append(w, e)
			}
		}
		val, want = items, w
	} else {
		val, want = ec.Tmpl.Text(), ec.Tmpl.Expand(ec.Env)
	}
	doc := docWith(ef.Path, val)
	cfg, err := parseDoc(doc, mapping(ec.Env))
	if err != nil {
		vs.add("C16.expand.parse-error", "", "document with %s: %v rejected: %v", ec.Field, val, err)
		return vs
	}
	got := ef.Get(&cfg)
	if fcfg, ferr := parseDocViaFile(doc, mapping(ec.Env)); ferr != nil {
		vs.add("C16.file-entry.parse-error", "", "document with %s: %v accepted from a reader but rejected from a file: %v", ec.Field, val, ferr)
	} else if fg := ef.Get(&fcfg); !reflect.DeepEqual(fg, got) {
		vs.add("C16.file-entry.differs", "", "%s: %q under %v parsed from a file (second parse of that file, other mapping before) gives %q, from a reader %q", ec.Field, val, ec.Env, fg, got)
	}
	if ef.List {
		g, _ := got.([]string)
		w, _ := want.([]string)
		if !eqStrings(g, w) {
			vs.add("C16.expand.list", "", "%s: %q under %v parsed to %q, expected %q", ec.Field, val, ec.Env, g, w)
		}
	} else {
		w := want.(string)
		if ec.Field == "version" {
			// the version is split after expansion; compare the re-joined core only when it is not semver-like
			if g := got.(string); g != w {
				if c2, err2 := parseDoc(docWith([]string{"version"}, w), noEnv); err2 != nil || c2.Version != g {
					vs.add("C16.expand.scalar", "", "version: %q under %v parsed to %q, expected the result for literal %q", val, ec.Env, g, w)
				}
			}
		} else if ec.Field == "arch" && (w == "" || strings.HasPrefix(w, "mips")) {
			// defaults apply to an empty arch
		} else if (ec.Field == "platform" || ec.Field == "description") && w == "" {
			// documented defaults apply to empty values
		} else if got.(string) != w {
			vs.add("C16.expand.scalar", "", "%s: %q under %v parsed to %q, expected %q", ec.Field, val, ec.Env, got, w)
		}
	}
	return vs
}

// ---------- content expansion ----------

type ContentExpandCase struct {
	Src, Dst Tmpl
	Expand   bool
	Env      map[string]string
}

func checkContentExpand(cc *ContentExpandCase) []Violation {
	var vs vlist
	elem := map[string]any{"src": cc.Src.Text(), "dst": cc.Dst.Text(), "type": "symlink"}
	if cc.Expand {
		elem["expand"] = true
	}
	doc := map[string]any{"name": "n", "arch": "amd64", "version": "1.0.0", "contents": []any{elem}}
	cfg, err := parseDoc(doc, mapping(cc.Env))
	if err != nil {
		vs.add("C16.content.parse-error", "", "%v", err)
		return vs
	}
	if len(cfg.Contents) != 1 {
		vs.add("C16.content.count", "", "%d contents parsed", len(cfg.Contents))
		return vs
	}
	if fcfg, ferr := parseDocViaFile(doc, mapping(cc.Env)); ferr != nil {
		vs.add("C16.file-entry.parse-error", "", "contents document accepted from a reader but rejected from a file: %v", ferr)
	} else if len(fcfg.Contents) != 1 || fcfg.Contents[0].Source != cfg.Contents[0].Source || fcfg.Contents[0].Destination != cfg.Contents[0].Destination {
		vs.add("C16.file-entry.differs", "", "contents src %q dst %q (expand=%v) under %v: second parse of the file gives %+v, the reader %q %q", cc.Src.Text(), cc.Dst.Text(), cc.Expand, cc.Env, fcfg.Contents, cfg.Contents[0].Source, cfg.Contents[0].Destination)
	}
	ws, wd := cc.Src.Text(), cc.Dst.Text()
	if cc.Expand {
		ws, wd = strings.TrimSpace(cc.Src.Expand(cc.Env)), strings.TrimSpace(cc.Dst.Expand(cc.Env))
	}
	if cfg.Contents[0].Source != ws || cfg.Contents[0].Destination != wd {
		clause := "C16.content.expanded-without-opt-in"
		if cc.Expand {
			clause = "C16.content.not-expanded"
		}
		vs.add(clause, "", "contents src %q dst %q (expand=%v) under %v parsed to src %q dst %q, expected %q %q",
			cc.Src.Text(), cc.Dst.Text(), cc.Expand, cc.Env, cfg.Contents[0].Source, cfg.Contents[0].Destination, ws, wd)
	}
	return vs
}

// ---------- dollar-free metamorphic relation ----------

func cfgDump(c *nfpm.Config) string {
	b, _ := json.Marshal(c)
	return string(b) + fmt.Sprintf("|pass:%q,%q,%q", c.Deb.Signature.KeyPassphrase, c.RPM.Signature.KeyPassphrase, c.APK.Signature.KeyPassphrase)
}

// ---------- passphrases ----------

func checkPassphrases(env map[string]string) []Violation {
	var vs vlist
	cfg, err := parseDoc(docWith([]string{"vendor"}, "v"), mapping(env))
	if err != nil {
		vs.add("C16.pass.parse-error", "", "%v", err)
		return vs
	}
	pick := func(specific string) string {
		if v := env[specific]; v != "" {
			return v
		}
		return env["NFPM_PASSPHRASE"]
	}
	for _, p := range []struct{ f, got, v string }{
		{"deb", cfg.Deb.Signature.KeyPassphrase, "NFPM_DEB_PASSPHRASE"},
		{"rpm", cfg.RPM.Signature.KeyPassphrase, "NFPM_RPM_PASSPHRASE"},
		{"apk", cfg.APK.Signature.KeyPassphrase, "NFPM_APK_PASSPHRASE"},
	} {
		if want := pick(p.v); p.got != want {
			vs.add("C16.passphrase", p.f, "passphrase %q under %v, expected %q", p.got, env, want)
		}
	}
	return vs
}

var identRe = regexp.MustCompile(`^[a-z_]+$`)

// forEachMisspelling enumerates, for every reflected key path, documents in which one segment is misspelled.
func forEachMisspelling(f func(kp keyPath, misspelled []string, doc map[string]any)) {
	paths := configKeyPaths()
	siblingsOf := map[string]map[string]bool{}
	for _, kp := range paths {
		parent := strings.Join(kp.Segs[:len(kp.Segs)-1], ".")
		if siblingsOf[parent] == nil {
			siblingsOf[parent] = map[string]bool{}
		}
		siblingsOf[parent][kp.Segs[len(kp.Segs)-1]] = true
	}
	for _, kp := range paths {
		val := kp.sample()
		if _, err := parseDoc(docWith(kp.Segs, val), noEnv); err != nil {
			continue
		}
		for i, seg := range kp.Segs {
			if seg == "[]" || !identRe.MatchString(seg) {
				continue
			}
			parent := strings.Join(kp.Segs[:i], ".")
			if i > 0 && kp.Segs[i-1] == "overrides" {
				continue
			}
			foreign := []string{}
			for _, cand := range []string{"summary", "breaks", "key_name", "pkgbase", "abi_version", "interest", "owner", "preinstall", "pretrans", "dst", "priority"} {
				if !siblingsOf[parent][cand] {
					foreign = append(foreign, cand)
				}
			}
			for _, bad := range misspellings(seg, siblingsOf[parent], foreign[:min(2, len(foreign))]) {
				segs := append(append(append([]string(nil), kp.Segs[:i]...), bad), kp.Segs[i+1:]...)
				f(kp, segs, docWith(segs, val))
			}
		}
	}
}

func TestC16(t *testing.T) {
	st := newStats("C16")
	defer st.Flush()
	var rc struct {
		Text    string             `json:"text"`
		Expand  *ExpandCase        `json:"expand"`
		Content *ContentExpandCase `json:"content"`
		Pass    map[string]string  `json:"pass"`
	}
	if replayCase(&rc) {
		st.Record(&rc, true, "replay")
		switch {
		case rc.Expand != nil:
			st.Report(t, &rc, checkExpand(rc.Expand))
		case rc.Content != nil:
			st.Report(t, &rc, checkContentExpand(rc.Content))
		case rc.Pass != nil:
			st.Report(t, &rc, checkPassphrases(rc.Pass))
		case rc.Text != "":
			if _, err := parseText(rc.Text, noEnv); err == nil {
				t.Fatalf("document with an undefined key is accepted:\n%s", rc.Text)
			}
			if _, err := parseTextViaFile(rc.Text, noEnv); err == nil {
				t.Fatalf("document with an undefined key is accepted when read from a file:\n%s", rc.Text)
			}
		}
		return
	}
	// (1) exhaustive: every key path, control + misspellings at every level
	paths := configKeyPaths()
	siblingsOf := map[string]map[string]bool{}
	for _, kp := range paths {
		parent := strings.Join(kp.Segs[:len(kp.Segs)-1], ".")
		if siblingsOf[parent] == nil {
			siblingsOf[parent] = map[string]bool{}
		}
		siblingsOf[parent][kp.Segs[len(kp.Segs)-1]] = true
	}
	nCtl, nMut := 0, 0
	_ = siblingsOf
	var firstViol vlist
	report := func(c any, vs vlist) {
		if left := st.Filter(vs); len(left) > 0 && len(firstViol) == 0 {
			firstViol = left
			st.saveReplay(c, left)
		}
	}
	for _, kp := range paths {
		val := kp.sample()
		ctl := docWith(kp.Segs, val)
		if _, err := parseDoc(ctl, noEnv); err != nil {
			var vs vlist
			vs.add("C16.strict.control-rejected", "", "correctly spelled key path %s rejected: %v", kp, err)
			b, _ := yaml.Marshal(ctl)
			report(map[string]any{"text": string(b)}, vs)
			continue
		}
		nCtl++
		// misspell each segment in turn (not list markers, not free-form keys)
		for i, seg := range kp.Segs {
			if seg == "[]" || !identRe.MatchString(seg) {
				continue
			}
			parent := strings.Join(kp.Segs[:i], ".")
			if i > 0 && kp.Segs[i-1] == "overrides" {
				continue // format names are map keys, judged by Validate (C13), not by the parser
			}
			foreign := []string{}
			for _, cand := range []string{"summary", "breaks", "key_name", "pkgbase", "abi_version", "interest", "owner", "preinstall", "pretrans", "dst", "priority"} {
				if !siblingsOf[parent][cand] {
					foreign = append(foreign, cand)
				}
			}
			for _, bad := range misspellings(seg, siblingsOf[parent], foreign[:min(2, len(foreign))]) {
				segs := append(append(append([]string(nil), kp.Segs[:i]...), bad), kp.Segs[i+1:]...)
				doc := docWith(segs, val)
				nontrivial := i > 0
				b, _ := yaml.Marshal(doc)
				st.Record(map[string]any{"path": kp.String(), "misspelled": strings.Join(segs, ".")}, nontrivial, "misspelling", fmt.Sprintf("depth:%d", i))
				nMut++
				if _, err := parseText(string(b), noEnv); err == nil {
					var vs vlist
					vs.add("C16.strict.unknown-key-accepted", "", "document with undefined key %s (misspelling of %s) is accepted", strings.Join(segs, "."), kp)
					report(map[string]any{"text": string(b)}, vs)
				} else if _, err := parseTextViaFile(string(b), noEnv); err == nil {
					var vs vlist
					vs.add("C16.strict.unknown-key-accepted", "", "document with undefined key %s (misspelling of %s) is rejected from a reader but accepted from a file", strings.Join(segs, "."), kp)
					report(map[string]any{"text": string(b)}, vs)
				}
				// the same document in JSON syntax (which is YAML too) and in flow style
				if jb, err := json.Marshal(doc); err == nil {
					if _, err := parseText(string(jb), noEnv); err == nil {
						var vs vlist
						vs.add("C16.strict.unknown-key-accepted", "", "JSON-syntax document with undefined key %s (misspelling of %s) is accepted", strings.Join(segs, "."), kp)
						report(map[string]any{"text": string(jb)}, vs)
					}
					nMut++
				}
			}
		}
	}
	// keys that are not plain strings
	for _, ex := range []struct{ text, clause string }{
		{"name: n\narch: a\nversion: 1\n~: x\n", "C16.strict.null-key-accepted"},
		{"name: n\narch: a\nversion: 1\ndeb:\n  ~: x\n", "C16.strict.null-key-accepted"},
		{"name: n\narch: a\nversion: 1\n? \n: x\n", "C16.strict.null-key-accepted"},
		{"name: n\narch: a\nversion: 1\n1: x\n", "C16.strict.unknown-key-accepted"},
		{"name: n\narch: a\nversion: 1\ntrue: x\n", "C16.strict.unknown-key-accepted"},
		{"name: n\narch: a\nversion: 1\n[a, b]: x\n", "C16.strict.unknown-key-accepted"},
		{"name: n\narch: a\nversion: 1\ncontents:\n- dst: /x\n  type: dir\n  ~: y\n", "C16.strict.null-key-accepted"},
	} {
		st.Record(map[string]string{"exotic-key-doc": ex.text}, true, "exotic-key")
		nMut++
		if _, err := parseText(ex.text, noEnv); err == nil {
			var vs vlist
			vs.add(ex.clause, "", "document with a key the parser does not define is accepted: %q", ex.text)
			report(map[string]any{"text": ex.text}, vs)
		}
	}
	st.Exhaustive["key paths (reflection) with a correctly spelled control document"] = nCtl
	st.Exhaustive["misspelled documents"] = nMut
	st.Label("key-paths", len(paths))
	if len(firstViol) > 0 {
		t.Fatalf("property C16 violated: %v", firstViol)
	}
	// documentation still marks the expandable fields
	docText, err := os.ReadFile(filepath.Join(repoDir(), "www/docs/configuration.md"))
	if err != nil {
		t.Fatalf("%v", err)
	}
	for _, ef := range expandable {
		if !docSaysExpandable(string(docText), ef.DocKey) {
			st.Note("configuration.md no longer marks %s as expandable; the field is skipped", strings.Join(ef.Path, "."))
			st.Exclude("field not documented as expandable: " + strings.Join(ef.Path, "."))
		}
	}
	// (2) generated expansion cases
	rapid.Check(t, func(rt *rapid.T) {
		ef := rapid.SampledFrom(expandable).Draw(rt, "field")
		if !docSaysExpandable(string(docText), ef.DocKey) {
			return
		}
		ec := &ExpandCase{Field: strings.Join(ef.Path, "."), Env: genEnv(rt, "env")}
		if ef.List {
			n := rapid.IntRange(1, 4).Draw(rt, "items")
			for i := 0; i < n; i++ {
				ec.ListTmpl = append(ec.ListTmpl, genTmpl(rt, fmt.Sprintf("item%d", i), false))
			}
		} else {
			ec.Tmpl = genTmpl(rt, "tmpl", false)
		}
		mixes := false
		for _, tm := range append([]Tmpl{ec.Tmpl}, ec.ListTmpl...) {
			lit := false
			for _, p := range tm {
				if p.Var == "" {
					lit = true
				}
			}
			if tm.HasRef() && lit {
				mixes = true
			}
		}
		st.Record(ec, mixes, "expand", "field:"+ec.Field)
		st.Report(rt, map[string]any{"expand": ec}, checkExpand(ec))

		cc := &ContentExpandCase{Src: genTmpl(rt, "csrc", true), Dst: append(Tmpl{{Lit: "/"}}, genTmpl(rt, "cdst", false)...), Expand: rapid.Bool().Draw(rt, "expand"), Env: ec.Env}
		st.Record(cc, true, "content-expand", fmt.Sprintf("opt-in:%v", cc.Expand))
		st.Report(rt, map[string]any{"content": cc}, checkContentExpand(cc))

		// dollar-free documents are insensitive to the environment
		c := metaBaseCase()
		genFullMeta(rt, c)
		c.Contents = nil
		c.Tree = nil
		c.Constraints = false
		// list items padded with blanks are trimmed, nothing else
		want := append([]string(nil), c.Meta.Depends...)
		for i := range c.Meta.Depends {
			if rapid.IntRange(0, 2).Draw(rt, fmt.Sprintf("pad%d", i)) == 0 {
				c.Meta.Depends[i] = rapid.SampledFrom([]string{" ", "  ", "\t"}).Draw(rt, fmt.Sprintf("padl%d", i)) + c.Meta.Depends[i] + rapid.SampledFrom([]string{" ", "", "  "}).Draw(rt, fmt.Sprintf("padr%d", i))
			}
		}
		text := string(c.YAML("/r"))
		if !strings.Contains(text, "$") {
			e1, e2 := genEnv(rt, "e1"), genEnv(rt, "e2")
			c1, err1 := parseText(text, mapping(e1))
			c2, err2 := parseText(text, mapping(e2))
			var vs vlist
			if err1 != nil || err2 != nil {
				vs.add("C16.dollar-free.parse-error", "", "%v / %v", err1, err2)
			} else if cfgDump(&c1) != cfgDump(&c2) {
				vs.add("C16.dollar-free.env-dependent", "", "a document without '$' parses differently under %v and %v", e1, e2)
			} else {
				// and equals the plain decode: list items are only trimmed
				if !eqStrings(c1.Depends, want) || c1.Maintainer != c.Meta.Maintainer || c1.Vendor != c.Meta.Vendor || c1.Homepage != c.Meta.Homepage {
					vs.add("C16.dollar-free.changed", "", "values without '$' were altered: depends %q maintainer %q", c1.Depends, c1.Maintainer)
				}
			}
			st.Record(map[string]any{"dollar-free-doc-bytes": len(text), "e1": e1, "e2": e2}, false, "dollar-free")
			st.Report(rt, map[string]any{"text": text}, vs)
		}

		// passphrase precedence over all subsets of the four variables
		penv := map[string]string{}
		nset := 0
		for _, v := range []string{"NFPM_PASSPHRASE", "NFPM_DEB_PASSPHRASE", "NFPM_RPM_PASSPHRASE", "NFPM_APK_PASSPHRASE"} {
			if rapid.Bool().Draw(rt, "set."+v) {
				penv[v] = rapid.SampledFrom([]string{"s3cret", "", "other pass", "päss"}).Draw(rt, "val."+v)
				nset++
			}
		}
		st.Record(penv, nset >= 2, "passphrase", fmt.Sprintf("vars-set:%d", nset))
		st.Report(rt, map[string]any{"pass": penv}, checkPassphrases(penv))
	})
}

var _ = sort.Strings
