package props

import (
	"bytes"
	"context"
	"fmt"
	"os"
	"os/exec"
	"path"
	"path/filepath"
	"sort"
	"strings"
	"testing"
	"time"

	"github.com/sassoftware/go-rpmutils"
	"pgregory.net/rapid"
)

// checkTarShape verifies the naming rules the property states for every tar.
func checkTarShape(f, where string, es []TarEntry, _ []byte, dotSlash bool, vs *vlist) {
	seen := map[string]bool{}
	dirs := map[string]bool{"/": true}
	for _, e := range es {
		n := e.Name
		abs := absOf(n)
		if seen[abs] {
			vs.add("C04.tar.duplicate-name", f, "%s: member %q appears twice", where, n)
		}
		seen[abs] = true
		if strings.HasPrefix(n, "/") {
			vs.add("C04.tar.absolute-name", f, "%s: member name %q is absolute", where, n)
		}
		if dotSlash && !strings.HasPrefix(n, "./") {
			vs.add("C04.tar.no-dot-slash", f, "%s: member name %q lacks the ./ prefix", where, n)
		}
		for _, comp := range strings.Split(n, "/") {
			if comp == ".." {
				vs.add("C04.tar.dotdot", f, "%s: member name %q has a .. component", where, n)
			}
		}
		if e.Typeflag == '5' && !strings.HasSuffix(n, "/") {
			vs.add("C04.tar.dir-without-slash", f, "%s: directory %q does not end in /", where, n)
		}
		if e.Typeflag != '5' && strings.HasSuffix(n, "/") {
			vs.add("C04.tar.nondir-with-slash", f, "%s: non-directory %q ends in /", where, n)
		}
		for d := path.Dir(abs); d != "/" && d != "."; d = path.Dir(d) {
			if !dirs[d] {
				vs.add("C04.tar.parent-after-child", f, "%s: %q appears before its parent directory %s", where, n, d)
				break
			}
		}
		if e.Typeflag == '5' {
			dirs[abs] = true
		}
	}
}

// rpmutilsCrossCheck reads the package with sassoftware/go-rpmutils (a reader nfpm's writers never call)
// and compares its view of the file list with the harness parser's.
func rpmutilsCrossCheck(raw []byte, d *Decoded, vs *vlist) {
	r, err := rpmutils.ReadRpm(bytes.NewReader(raw))
	if err != nil {
		vs.add("C04.rpm.rpmutils-rejects", "rpm", "go-rpmutils cannot read the package: %v", err)
		return
	}
	fis, err := r.Header.GetFiles()
	if err != nil {
		if len(d.Payload) > 0 {
			vs.add("C04.rpm.rpmutils-rejects", "rpm", "go-rpmutils cannot list the files: %v", err)
		}
		return
	}
	var a, b []string
	for _, fi := range fis {
		a = append(a, path.Clean(fi.Name()))
	}
	for _, e := range d.Payload {
		b = append(b, e.Abs)
	}
	if strings.Join(a, "\x00") != strings.Join(b, "\x00") {
		vs.add("C04.rpm.readers-disagree", "rpm", "go-rpmutils lists %v, the harness parser lists %v", a, b)
	}
}

var haveDpkgDeb = func() bool { _, err := exec.LookPath("dpkg-deb"); return err == nil }()

func dpkgDebAccepts(b []byte, vs *vlist) {
	if !haveDpkgDeb {
		return
	}
	dir, err := os.MkdirTemp(scratchBase(), "dpkg")
	if err != nil {
		return
	}
	defer os.RemoveAll(dir)
	p := filepath.Join(dir, "p.deb")
	if err := os.WriteFile(p, b, 0o644); err != nil {
		return
	}
	for _, args := range [][]string{{"-I", p}, {"-c", p}} {
		ctx, cancel := context.WithTimeout(context.Background(), 20*time.Second)
		cmd := exec.CommandContext(ctx, "dpkg-deb", args...)
		cmd.Env = append(os.Environ(), "LC_ALL=C")
		out, err := cmd.CombinedOutput()
		timedOut := ctx.Err() != nil
		cancel()
		if timedOut {
			vs.add("C04.deb.dpkg-deb-hangs", "deb", "dpkg-deb %s did not finish within 20 s on this package", args[0])
			return
		}
		if err != nil {
			vs.add("C04.deb.dpkg-deb-rejects", "deb", "dpkg-deb %s: %v: %s", args[0], err, strings.TrimSpace(string(out)))
			return
		}
	}
}

func checkC04Format(c *BuildCase, f string, d *Decoded, raw []byte, vs *vlist) {
	switch f {
	case "deb":
		names := []string{}
		for _, m := range d.Ar {
			names = append(names, m.Name)
		}
		if len(d.Ar) < 3 || d.Ar[0].Name != "debian-binary" || d.Ar[1].Name != "control.tar.gz" || !strings.HasPrefix(d.Ar[2].Name, "data.tar") {
			vs.add("C04.deb.members", f, "ar members are %v", names)
			return
		}
		if string(d.Ar[0].Data) != "2.0\n" {
			vs.add("C04.deb.debian-binary", f, "debian-binary is %q", d.Ar[0].Data)
		}
		wantData := map[string]string{"": "data.tar.gz", "gzip": "data.tar.gz", "xz": "data.tar.xz", "zstd": "data.tar.zst", "none": "data.tar"}[c.DebCompression]
		if d.Ar[2].Name != wantData {
			vs.add("C04.deb.data-name", f, "data member is %q, compression %q calls for %q", d.Ar[2].Name, c.DebCompression, wantData)
		}
		if c.Signed != (len(d.Ar) == 4) {
			vs.add("C04.deb.signature-member", f, "signing configured=%v but ar members are %v", c.Signed, names)
		}
		if len(d.Ar) > 4 || (len(d.Ar) == 4 && !strings.HasPrefix(d.Ar[3].Name, "_gpg")) {
			vs.add("C04.deb.members", f, "unexpected trailing ar members: %v", names)
		}
		ctl, _, _ := Gunzip(d.ControlRaw)
		checkTarShape(f, "control.tar.gz", d.ControlTar, ctl, true, vs)
		var des []TarEntry
		des, _ = ParseTar(d.DataTarRaw)
		checkTarShape(f, d.DataName, des, d.DataTarRaw, true, vs)
		if !TarHasEOFMarker(d.DataTarRaw) || !TarHasEOFMarker(ctl) {
			vs.add("C04.deb.tar-eof", f, "a tar member lacks the end-of-archive marker")
		}
	case "ipk":
		var names []string
		for _, e := range d.OuterTar {
			names = append(names, e.Name)
		}
		if strings.Join(names, "|") != "./debian-binary|./control.tar.gz|./data.tar.gz" {
			vs.add("C04.ipk.members", f, "outer tar members are %v", names)
			return
		}
		if string(d.OuterTar[0].Data) != "2.0\n" {
			vs.add("C04.ipk.debian-binary", f, "debian-binary is %q", d.OuterTar[0].Data)
		}
		ctl, _, _ := Gunzip(d.ControlRaw)
		checkTarShape(f, "control.tar.gz", d.ControlTar, ctl, true, vs)
		des, _ := ParseTar(d.DataTarRaw)
		checkTarShape(f, "data.tar.gz", des, d.DataTarRaw, true, vs)
		outer, _, _ := Gunzip(raw)
		checkTarShape(f, "outer", d.OuterTar, outer, true, vs)
	case "apk":
		n := len(d.ApkMembers)
		ctlIdx := n - 2
		if TarHasEOFMarker(d.ApkMembers[ctlIdx].Data) {
			vs.add("C04.apk.control-has-eof", f, "control segment carries a tar end-of-archive marker")
		}
		if n == 3 && TarHasEOFMarker(d.ApkMembers[0].Data) {
			vs.add("C04.apk.signature-has-eof", f, "signature segment carries a tar end-of-archive marker")
		}
		if !TarHasEOFMarker(d.ApkMembers[n-1].Data) {
			vs.add("C04.apk.data-incomplete", f, "data segment is not a complete tar (no end-of-archive marker)")
		}
		for i, m := range d.ApkMembers {
			if len(m.Data)%512 != 0 {
				vs.add("C04.apk.segment-alignment", f, "segment %d has %d bytes, not a multiple of 512", i, len(m.Data))
			}
		}
		if c.Signed != (n == 3) {
			vs.add("C04.apk.signature-segment", f, "signing configured=%v but the package has %d segments", c.Signed, n)
		}
		if len(d.ControlTar) == 0 || d.ControlTar[0].Name != ".PKGINFO" {
			vs.add("C04.apk.pkginfo-first", f, ".PKGINFO is not the first entry of the control segment")
		}
		if n == 3 && (len(d.ApkSig) != 1 || !strings.HasPrefix(d.ApkSig[0].Name, ".SIGN.RSA.")) {
			vs.add("C04.apk.signature-entry", f, "signature segment entries: %d", len(d.ApkSig))
		}
		// the concatenation of all segments must itself read as one tar (what apk-tools does)
		var all []byte
		for _, m := range d.ApkMembers {
			all = append(all, m.Data...)
		}
		if es, err := ParseTar(all); err != nil {
			vs.add("C04.apk.concatenation", f, "concatenated segments are not one readable tar: %v", err)
		} else if want := len(d.ApkSig) + len(d.ControlTar) + len(d.Payload); len(es) != want {
			vs.add("C04.apk.concatenation", f, "concatenated segments yield %d entries, segments hold %d", len(es), want)
		}
		des, _ := ParseTar(d.ApkDataTar)
		checkTarShape(f, "data", des, d.ApkDataTar, false, vs)
	case "archlinux":
		checkTarShape(f, "pkg", d.ArchTar, d.ArchRaw, false, vs)
		has := map[string]bool{}
		for _, e := range d.ArchTar {
			has[e.Name] = true
		}
		if !has[".PKGINFO"] {
			vs.add("C04.arch.no-pkginfo", f, ".PKGINFO missing")
		}
		if !has[".MTREE"] {
			vs.add("C04.arch.no-mtree", f, ".MTREE missing")
		} else if d.MtreeErr != nil {
			vs.add("C04.arch.mtree-malformed", f, ".MTREE is not valid mtree(5): %v", d.MtreeErr)
		} else if len(d.Mtree) == 0 || d.Mtree[0].Path != "./.PKGINFO" {
			vs.add("C04.arch.mtree-first", f, "first .MTREE entry is not ./.PKGINFO")
		}
		wantInstall := false
		for slot := range slotsOf("archlinux") {
			if _, ok := c.Scripts[slot]; ok {
				wantInstall = true
			}
		}
		if wantInstall != d.HasInst {
			vs.add("C04.arch.install-iff-scripts", f, ".INSTALL present=%v, scripts configured=%v", d.HasInst, wantInstall)
		}
		if !TarHasEOFMarker(d.ArchRaw) {
			vs.add("C04.arch.tar-eof", f, "tar lacks the end-of-archive marker")
		}
	case "rpm":
		r := d.RPM
		if r.HdrOffset%8 != 0 {
			vs.add("C04.rpm.sig-alignment", f, "main header starts at %d, not 8-aligned", r.HdrOffset)
		}
		if pf, _ := r.Hdr.String(1124); pf != "cpio" {
			vs.add("C04.rpm.payload-format", f, "PAYLOADFORMAT is %q", pf)
		}
		wantComp := strings.Split(c.RPMCompression, ":")[0]
		if wantComp == "" {
			wantComp = "gzip"
		}
		if pc, _ := r.Hdr.String(1125); pc != wantComp {
			vs.add("C04.rpm.payload-compressor", f, "PAYLOADCOMPRESSOR %q, configured %q", pc, c.RPMCompression)
		}
		var listed []string
		for _, e := range d.Payload {
			listed = append(listed, e.Abs)
		}
		if !sort.StringsAreSorted(listed) {
			vs.add("C04.rpm.files-unsorted", f, "header file list is not sorted: %v", listed)
		}
		var want []string
		for _, e := range d.Payload {
			if e.Flags&64 == 0 {
				want = append(want, e.Abs)
			}
		}
		var got []string
		for _, ce := range d.Cpio {
			got = append(got, path.Clean("/"+strings.TrimPrefix(ce.Name, ".")))
		}
		if strings.Join(want, "\x00") != strings.Join(got, "\x00") {
			vs.add("C04.rpm.cpio-vs-header", f, "cpio entries %v do not correspond one-to-one, in order, to the non-ghost header files %v", got, want)
		}
		for i, ce := range d.Cpio {
			if i < len(want) {
				for _, e := range d.Payload {
					if e.Abs == want[i] && e.Kind == "file" && int64(len(ce.Data)) != e.Size {
						vs.add("C04.rpm.cpio-size", f, "%s: cpio carries %d bytes, header says %d", e.Abs, len(ce.Data), e.Size)
					}
				}
			}
		}
		if c.Signed != (r.Sig.Has(268) && r.Sig.Has(1002)) {
			vs.add("C04.rpm.signature-tags", f, "signing configured=%v, RSAHEADER present=%v, PGP present=%v", c.Signed, r.Sig.Has(268), r.Sig.Has(1002))
		}
		if thorough() {
			rpmutilsCrossCheck(raw, d, vs)
		}
		// lead: type 0 (binary), major 3
		if r.Lead[4] != 3 {
			vs.add("C04.rpm.lead", f, "lead major version %d", r.Lead[4])
		}
	}
}

func checkC04(c *BuildCase, sample bool) []Violation {
	var vs vlist
	err := c.withRoot(func(root string) error {
		b := buildAll(c, root, "C04", &vs)
		for _, f := range c.formats() {
			if d := b.decoded[f]; d != nil {
				checkC04Format(c, f, d, b.bytes[f], &vs)
			}
		}
		if sample && b.bytes["deb"] != nil {
			dpkgDebAccepts(b.bytes["deb"], &vs)
		}
		// the file the command leaves at a target that already held a longer file (an earlier, larger build) is
		// held to the same standard as the library's output
		if bin := nfpmBinary(); sample && bin != "" && !c.Signed && len(vs) == 0 {
			fs := c.formats()
			f := fs[int(c.MTime+int64(len(c.Tree)))%len(fs)]
			if b.bytes[f] != nil {
				cfgPath := filepath.Join(root, "c04-cli.yaml")
				target := filepath.Join(root, "c04-cli-out"+extOf[f])
				if err := os.WriteFile(cfgPath, c.YAMLFor(root, f), 0o644); err != nil {
					return err
				}
				if err := os.WriteFile(target, append(append([]byte(nil), b.bytes[f]...), bytes.Repeat([]byte("tail of an earlier, larger build\n"), 300)...), 0o644); err != nil {
					return err
				}
				cmd := exec.Command(bin, "package", "-f", cfgPath, "-p", f, "-t", target)
				cmd.Dir = root
				if out, err := cmd.CombinedOutput(); err != nil {
					vs.add("C04.cli-build", f, "nfpm package failed on a configuration the library builds: %v: %s", err, strings.TrimSpace(string(out)))
				} else if raw, err := os.ReadFile(target); err != nil {
					vs.add("C04.cli-build", f, "nfpm package succeeded but %s cannot be read: %v", target, err)
				} else if d, err := Decode(f, raw); err != nil {
					vs.add("C04.decode", f, "file written by `nfpm package` over an existing longer file: independent reader rejects it: %v", err)
				} else {
					var cli vlist
					checkC04Format(c, f, d, raw, &cli)
					for _, v := range cli {
						v.Detail = "file written by `nfpm package` over an existing longer file: " + v.Detail
						vs = append(vs, v)
					}
				}
				_ = os.Remove(target)
				_ = os.Remove(cfgPath)
			}
		}
		// boundary probe: pad the description so that apk's .PKGINFO is an exact multiple of the tar block size
		if d := b.decoded["apk"]; d != nil && len(vs) == 0 {
			if r := len(d.ControlText) % 512; r != 0 {
				cp := cloneCase(c)
				cp.Meta.Description = c.Meta.Description + strings.Repeat("x", 512-r)
				cp.Formats = []string{"apk"}
				if out, err := cp.BuildOne(root, "apk"); err == nil {
					if d2, err := DecodeAPK(out); err != nil {
						vs.add("C04.decode", "apk", "with a .PKGINFO of a whole number of tar blocks: independent reader rejects the package: %v", err)
					} else if len(d2.ControlText)%512 == 0 {
						checkC04Format(cp, "apk", d2, out, &vs)
					}
				}
			}
		}
		return nil
	})
	if err != nil {
		panic(err)
	}
	return vs
}

func nontrivialC04(c *BuildCase) bool {
	hasDir, hasFile := false, false
	for _, e := range c.Contents {
		if e.Type == "dir" || e.Type == "tree" {
			hasDir = true
		}
		if e.isFileLike() {
			hasFile = true
		}
	}
	special := (c.DebCompression != "" && c.DebCompression != "gzip") || (c.RPMCompression != "" && c.RPMCompression != "gzip") || len(c.Scripts) > 0 || c.Signed
	return hasFile && hasDir && special
}

func TestC04(t *testing.T) {
	st := newStats("C04")
	defer st.Flush()
	st.Tools["dpkg-deb"] = fmt.Sprint(haveDpkgDeb)
	var rc BuildCase
	if replayCase(&rc) {
		st.Record(&rc, true, "replay")
		st.Report(t, &rc, checkC04(&rc, true))
		return
	}
	i := 0
	rapid.Check(t, func(rt *rapid.T) {
		c := genBuildCase(rt, c01Opts)
		genSimpleScripts(rt, c)
		c.Signed = rapid.IntRange(0, 2).Draw(rt, "signed") == 0
		labels, _, _ := classifyBuildCase(c)
		if c.Signed {
			labels = append(labels, "signed")
		}
		if len(c.Scripts) > 0 {
			labels = append(labels, "scripts")
		}
		i++
		sample := thorough() || i%4 == 0
		if sample {
			labels = append(labels, "dpkg-deb-run")
		}
		st.Record(c, nontrivialC04(c), labels...)
		st.Report(rt, c, checkC04(c, sample))
	})
}

var _ = bytes.Equal
