package props

import (
	"crypto/sha256"
	"encoding/hex"
	"encoding/json"
	"fmt"
	"os"
	"path/filepath"
	"regexp"
	"sort"
	"strconv"
	"strings"
	"sync"
	"testing"

	"pgregory.net/rapid"
)

// Violation is one way in which a case breaks a property. Clause is a stable id
// (e.g. "C01.file.owner"); known findings are keyed on it.
type Violation struct {
	Clause string `json:"clause"`
	Format string `json:"format,omitempty"`
	Detail string `json:"detail"`
}

func (v Violation) String() string {
	if v.Format != "" {
		return fmt.Sprintf("[%s %s] %s", v.Clause, v.Format, v.Detail)
	}
	return fmt.Sprintf("[%s] %s", v.Clause, v.Detail)
}

type vlist []Violation

func (l *vlist) add(clause, format, f string, args ...any) {
	*l = append(*l, Violation{Clause: clause, Format: format, Detail: fmt.Sprintf(f, args...)})
}

// ---------- known findings ----------

type KnownFinding struct {
	Property string `json:"property"`
	Clause   string `json:"clause"`
	Format   string `json:"format,omitempty"` // "" = any
	Match    string `json:"match,omitempty"`  // regexp on Detail; "" = any
	What     string `json:"what"`
	re       *regexp.Regexp
}

type knownFile struct {
	Findings []KnownFinding `json:"findings"`
	Fixed    []string       `json:"fixed"`
}

var (
	knownOnce sync.Once
	known     []KnownFinding
)

// repoDir is the nfpm tree under test: /repo for every registered check; VERIF_REPO points experiments
// (mutation screening in scratch worktrees) at another checkout together with a harness copy whose go.mod replaces to it.
func repoDir() string {
	if d := os.Getenv("VERIF_REPO"); d != "" {
		return d
	}
	return "/repo"
}

func verifDir() string {
	if d := os.Getenv("VERIF_DIR"); d != "" {
		return d
	}
	return "/verif"
}

func loadKnown() []KnownFinding {
	knownOnce.Do(func() {
		b, err := os.ReadFile(filepath.Join(verifDir(), "known_findings.json"))
		if err != nil {
			return
		}
		var kf knownFile
		if err := json.Unmarshal(b, &kf); err != nil {
			panic("known_findings.json: " + err.Error())
		}
		for i := range kf.Findings {
			if kf.Findings[i].Match != "" {
				kf.Findings[i].re = regexp.MustCompile(kf.Findings[i].Match)
			}
		}
		known = kf.Findings
	})
	return known
}

func matchKnown(prop string, v Violation) (int, bool) {
	for i, k := range loadKnown() {
		if k.Property != prop || k.Clause != v.Clause {
			continue
		}
		if k.Format != "" && k.Format != v.Format {
			continue
		}
		if k.re != nil && !k.re.MatchString(v.Detail) {
			continue
		}
		return i, true
	}
	return 0, false
}

// ---------- statistics / evidence ----------

type Stats struct {
	mu          sync.Mutex
	Property    string              `json:"property"`
	Evaluations int                 `json:"evaluations"`
	Nontrivial  map[string]struct{} `json:"-"`
	NontrivialN int                 `json:"distinct_nontrivial"`
	Hashes      []string            `json:"nontrivial_hashes"`
	Labels      map[string]int      `json:"labels"`
	Samples     []json.RawMessage   `json:"samples"`
	KnownHits   map[string]int      `json:"known_hits"`
	Excluded    map[string]int      `json:"excluded"`
	Exhaustive  map[string]int      `json:"exhaustive_spaces"`
	Notes       []string            `json:"notes"`
	Violations  []map[string]any    `json:"violations"`
	Tools       map[string]string   `json:"tools"`
	sampleSeen  map[string]bool
	maxSamples  int
}

func newStats(prop string) *Stats {
	return &Stats{Property: prop, Nontrivial: map[string]struct{}{}, Labels: map[string]int{}, KnownHits: map[string]int{},
		Excluded: map[string]int{}, Exhaustive: map[string]int{}, Tools: map[string]string{}, sampleSeen: map[string]bool{}, maxSamples: 8}
}

func caseHash(c any) string {
	b, _ := json.Marshal(c)
	s := sha256.Sum256(b)
	return hex.EncodeToString(s[:8])
}

// Record counts one evaluated case. sample may be any JSON-serialisable summary.
func (s *Stats) Record(c any, nontrivial bool, labels ...string) {
	s.mu.Lock()
	defer s.mu.Unlock()
	s.Evaluations++
	for _, l := range labels {
		s.Labels[l]++
	}
	if nontrivial {
		h := caseHash(c)
		if _, ok := s.Nontrivial[h]; !ok {
			s.Nontrivial[h] = struct{}{}
			if len(s.Samples) < s.maxSamples {
				b, _ := json.Marshal(c)
				if len(b) > 6000 {
					b, _ = json.Marshal(map[string]any{"truncated_case_json_prefix": string(b[:6000])})
				}
				s.Samples = append(s.Samples, b)
			}
		}
	}
}

// AddEvals counts additional executions performed inside one recorded case (injected faults, repetitions).
func (s *Stats) AddEvals(n int) {
	s.mu.Lock()
	s.Evaluations += n
	s.mu.Unlock()
}

func (s *Stats) Label(l string, n int) {
	s.mu.Lock()
	s.Labels[l] += n
	s.mu.Unlock()
}

func (s *Stats) Exclude(what string) {
	s.mu.Lock()
	s.Excluded[what]++
	s.mu.Unlock()
}

func (s *Stats) Note(f string, a ...any) {
	s.mu.Lock()
	s.Notes = append(s.Notes, fmt.Sprintf(f, a...))
	s.mu.Unlock()
}

func (s *Stats) Flush() {
	s.mu.Lock()
	defer s.mu.Unlock()
	s.NontrivialN = len(s.Nontrivial)
	s.Hashes = s.Hashes[:0]
	for h := range s.Nontrivial {
		s.Hashes = append(s.Hashes, h)
	}
	sort.Strings(s.Hashes)
	p := os.Getenv("VERIF_STATS")
	if p == "" {
		return
	}
	b, _ := json.MarshalIndent(s, "", " ")
	_ = os.WriteFile(p, b, 0o644)
}

// ---------- reporting ----------

func replayDir() string {
	if d := os.Getenv("VERIF_REPLAY_DIR"); d != "" {
		return d
	}
	return filepath.Join(verifDir(), "replays")
}

type fataler interface {
	Fatalf(string, ...any)
	Helper()
}

// Filter drops violations that match a known finding (counting them).
func (s *Stats) Filter(vs []Violation) []Violation {
	var out []Violation
	for _, v := range vs {
		if i, ok := matchKnown(s.Property, v); ok {
			s.mu.Lock()
			s.KnownHits[strconv.Itoa(i)+":"+loadKnown()[i].Clause]++
			s.mu.Unlock()
			continue
		}
		out = append(out, v)
	}
	return out
}

// Report saves the case as a replay file and fails the (rapid or plain) test if any
// violation is not a known finding. With rapid, the last file written for a clause is
// the shrunk one.
func (s *Stats) Report(t fataler, c any, vs []Violation) {
	t.Helper()
	vs = s.Filter(vs)
	if len(vs) == 0 {
		return
	}
	sort.Slice(vs, func(i, j int) bool { return vs[i].Clause < vs[j].Clause })
	p := s.saveReplay(c, vs)
	msgs := make([]string, 0, len(vs))
	for _, v := range vs {
		msgs = append(msgs, v.String())
	}
	t.Fatalf("property %s violated (%d): replay=%s\n  %s", s.Property, len(vs), p, strings.Join(msgs, "\n  "))
}

var clauseSafe = regexp.MustCompile(`[^A-Za-z0-9._-]`)

func (s *Stats) saveReplay(c any, vs []Violation) string {
	_ = os.MkdirAll(replayDir(), 0o755)
	name := fmt.Sprintf("%s-%s.json", s.Property, clauseSafe.ReplaceAllString(vs[0].Clause+"-"+vs[0].Format, "_"))
	p := filepath.Join(replayDir(), name)
	doc := map[string]any{"property": s.Property, "violations": vs, "case": c}
	b, _ := json.MarshalIndent(doc, "", " ")
	_ = os.WriteFile(p, b, 0o644)
	s.mu.Lock()
	// remember the latest file per clause; the driver prints VIOLATION lines from this
	found := false
	for _, m := range s.Violations {
		if m["replay"] == p {
			m["violations"] = vs
			found = true
		}
	}
	if !found {
		s.Violations = append(s.Violations, map[string]any{"replay": p, "violations": vs})
	}
	s.mu.Unlock()
	return p
}

// ---------- replay ----------

// replayCase loads the "case" member of a replay file into dst. It returns false
// when no replay was requested for this run.
func replayCase(dst any) bool {
	p := os.Getenv("VERIF_REPLAY")
	if p == "" {
		return false
	}
	b, err := os.ReadFile(p)
	if err != nil {
		panic(err)
	}
	var doc struct {
		Case json.RawMessage `json:"case"`
	}
	if err := json.Unmarshal(b, &doc); err != nil {
		panic(err)
	}
	if err := json.Unmarshal(doc.Case, dst); err != nil {
		panic(err)
	}
	return true
}

// ---------- tiers ----------

func tier() string {
	if t := os.Getenv("VERIF_TIER"); t != "" {
		return t
	}
	return "quick"
}

func thorough() bool { return tier() == "thorough" }

func envInt(name string, def int) int {
	if v := os.Getenv(name); v != "" {
		if n, err := strconv.Atoi(v); err == nil {
			return n
		}
	}
	return def
}

// shard returns (index, count) for sharded exhaustive enumerations.
func shard() (int, int) {
	return envInt("VERIF_SHARD", 0), envInt("VERIF_SHARDS", 1)
}

// runRapid runs prop under rapid unless a replay file is given, in which case the
// replay function is called with the stored case (bypassing the library).
func runRapid(t *testing.T, prop func(*rapid.T)) {
	t.Helper()
	rapid.Check(t, prop)
}
