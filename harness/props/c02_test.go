package props

import (
	"fmt"
	"os"
	"path/filepath"
	"regexp"
	"sort"
	"strings"
	"testing"

	"pgregory.net/rapid"
)

// ---------- documented architecture table ----------

var archRow = regexp.MustCompile("^\\|\\s*`([^`]+)`\\s*\\|\\s*`([^`]+)`\\s*\\|")

// loadArchTable parses www/docs/goarch-to-pkg.md from the working tree.
func loadArchTable() (map[string]map[string]string, error) {
	b, err := os.ReadFile(filepath.Join(repoDir(), "www/docs/goarch-to-pkg.md"))
	if err != nil {
		return nil, err
	}
	out := map[string]map[string]string{}
	cur := ""
	for _, line := range strings.Split(string(b), "\n") {
		if strings.HasPrefix(line, "## ") {
			cur = strings.Trim(strings.TrimPrefix(line, "## "), "` ")
			out[cur] = map[string]string{}
			continue
		}
		if m := archRow.FindStringSubmatch(line); m != nil && cur != "" {
			out[cur][m[1]] = m[2]
		}
	}
	return out, nil
}

func archOverride(c *BuildCase, f string) string {
	if c.X == nil {
		return ""
	}
	switch f {
	case "deb":
		return c.X.DebArch
	case "rpm":
		return c.X.RPMArch
	case "apk":
		return c.X.APKArch
	case "archlinux":
		return c.X.ArchArch
	case "ipk":
		return c.X.IPKArch
	}
	return ""
}

// ---------- expected version strings ----------

func debVersion(m *Meta) string {
	v := m.Version
	if m.Epoch != "" {
		v = m.Epoch + ":" + v
	}
	if m.Prerelease != "" {
		v += "~" + m.Prerelease
	}
	if m.VersionMetadata != "" {
		v += "+" + m.VersionMetadata
	}
	if m.Release != "" {
		v += "-" + m.Release
	}
	return v
}

func rpmVersion(m *Meta) string {
	v := m.Version
	if m.Prerelease != "" {
		v += "~" + strings.ReplaceAll(m.Prerelease, "-", "_")
	}
	if m.VersionMetadata != "" {
		v += "+" + m.VersionMetadata
	}
	return v
}

// ---------- decoded metadata in a neutral shape ----------

type DecMeta struct {
	Name, Version, Release, Epoch, Arch, Platform string
	Maintainer, Vendor, Homepage, License         string
	Section, Priority, Summary                    string
	DescLines                                     []string
	Rel                                           map[string][]string // relation -> items (as the format spells them)
	HasRel                                        map[string]bool     // relations this format has a notion of
}

func splitList(v string) []string {
	if strings.TrimSpace(v) == "" {
		return nil
	}
	parts := strings.Split(v, ", ")
	for i := range parts {
		parts[i] = strings.TrimSpace(parts[i])
	}
	return parts
}

func rpmRelations(h *RPMHeader, nameTag, verTag, flagTag uint32) ([]string, error) {
	names, _ := h.Strings(nameTag)
	vers, _ := h.Strings(verTag)
	flags, _ := h.Ints(flagTag)
	if len(names) != len(vers) || len(names) != len(flags) {
		return nil, fmt.Errorf("rpm relation tags %d/%d/%d have %d/%d/%d items", nameTag, verTag, flagTag, len(names), len(vers), len(flags))
	}
	var out []string
	for i, n := range names {
		op := ""
		if flags[i]&2 != 0 {
			op += "<"
		}
		if flags[i]&4 != 0 {
			op += ">"
		}
		if flags[i]&8 != 0 {
			op += "="
		}
		if op == "" {
			out = append(out, n)
		} else {
			out = append(out, n+" "+op+" "+vers[i])
		}
	}
	return out, nil
}

func decodeMeta(f string, d *Decoded) (*DecMeta, error) {
	m := &DecMeta{Rel: map[string][]string{}, HasRel: map[string]bool{}}
	switch f {
	case "deb", "ipk":
		g := func(k string) string { v, _ := d.Control.Get(k); return v }
		m.Name, m.Version, m.Arch = g("Package"), g("Version"), g("Architecture")
		m.Maintainer, m.Homepage, m.License = g("Maintainer"), g("Homepage"), g("License")
		m.Section, m.Priority, m.Vendor = g("Section"), g("Priority"), g("Vendor")
		m.DescLines = Deb822Description(g("Description"))
		for rel, field := range map[string]string{"replaces": "Replaces", "provides": "Provides", "depends": "Depends", "recommends": "Recommends",
			"suggests": "Suggests", "conflicts": "Conflicts", "predepends": "Pre-Depends"} {
			m.Rel[rel] = splitList(g(field))
			m.HasRel[rel] = true
		}
		if f == "deb" {
			m.Rel["breaks"] = splitList(g("Breaks"))
			m.HasRel["breaks"] = true
		}
		for _, fl := range d.Control.Fields {
			if d.Control.Count(fl.K) != 1 {
				return m, fmt.Errorf("control field %s appears %d times", fl.K, d.Control.Count(fl.K))
			}
		}
	case "rpm":
		h := &d.RPM.Hdr
		m.Name, _ = h.String(1000)
		m.Version, _ = h.String(1001)
		m.Release, _ = h.String(1002)
		if e, ok := h.Ints(1003); ok && len(e) == 1 {
			m.Epoch = fmt.Sprint(e[0])
		}
		m.Summary, _ = h.String(1004)
		desc, _ := h.String(1005)
		m.DescLines = strings.Split(desc, "\n")
		m.Vendor, _ = h.String(1011)
		m.License, _ = h.String(1014)
		m.Maintainer, _ = h.String(1015)
		m.Homepage, _ = h.String(1020)
		m.Platform, _ = h.String(1021)
		m.Arch, _ = h.String(1022)
		var err error
		for rel, tags := range map[string][3]uint32{"provides": {1047, 1113, 1112}, "depends": {1049, 1050, 1048}, "conflicts": {1054, 1055, 1053},
			"replaces": {1090, 1115, 1114}, "recommends": {5046, 5047, 5048}, "suggests": {5049, 5050, 5051}} {
			m.Rel[rel], err = rpmRelations(h, tags[0], tags[1], tags[2])
			if err != nil {
				return m, err
			}
			m.HasRel[rel] = true
		}
	case "apk":
		g := func(k string) string { v, _ := kvOne(d.PkgInfo, k); return v }
		m.Name, m.Version, m.Arch = g("pkgname"), g("pkgver"), g("arch")
		m.Homepage, m.Maintainer, m.License = g("url"), g("maintainer"), g("license")
		m.DescLines = strings.Split(g("pkgdesc"), "\n")
		for rel, key := range map[string]string{"replaces": "replaces", "provides": "provides", "depends": "depend"} {
			m.Rel[rel] = kvAll(d.PkgInfo, key)
			m.HasRel[rel] = true
		}
	case "archlinux":
		g := func(k string) string { v, _ := kvOne(d.PkgInfo, k); return v }
		m.Name, m.Version, m.Arch = g("pkgname"), g("pkgver"), g("arch")
		m.Homepage, m.License = g("url"), g("license")
		m.Maintainer = g("packager")
		m.DescLines = []string{g("pkgdesc")}
		for rel, key := range map[string]string{"replaces": "replaces", "provides": "provides", "depends": "depend", "conflicts": "conflict"} {
			m.Rel[rel] = kvAll(d.PkgInfo, key)
			m.HasRel[rel] = true
		}
	}
	return m, nil
}

// normDesc is the normalisation every deb822 writer has to apply: outer trim,
// per-line trim.
func normDesc(s string) []string {
	lines := strings.Split(strings.TrimSpace(s), "\n")
	for i := range lines {
		lines[i] = strings.TrimSpace(lines[i])
	}
	return lines
}

func eqStrings(a, b []string) bool {
	if len(a) != len(b) {
		return false
	}
	for i := range a {
		if a[i] != b[i] {
			return false
		}
	}
	return true
}

func configuredRel(c *BuildCase, f, rel string) []string {
	m := &c.Meta
	var base []string
	switch rel {
	case "replaces":
		base = m.Replaces
	case "provides":
		base = m.Provides
	case "depends":
		base = m.Depends
	case "recommends":
		base = m.Recommends
	case "suggests":
		base = m.Suggests
	case "conflicts":
		base = m.Conflicts
	case "breaks":
		if c.X != nil && f == "deb" {
			base = c.X.DebBreaks
		}
	case "predepends":
		if c.X != nil && f == "deb" {
			base = c.X.DebPredepends
		}
		if c.X != nil && f == "ipk" {
			base = c.X.IPKPredepends
		}
	}
	return c.rel(base, f)
}

var allRels = []string{"replaces", "provides", "depends", "recommends", "suggests", "conflicts", "breaks", "predepends"}

func checkC02Format(c *BuildCase, f string, d *Decoded, table map[string]map[string]string, vs *vlist) {
	dm, err := decodeMeta(f, d)
	if err != nil {
		vs.add("C02.metadata-unreadable", f, "%v", err)
		return
	}
	m := &c.Meta
	if dm.Name != m.Name {
		vs.add("C02.name", f, "name %q, configured %q", dm.Name, m.Name)
	}
	// ---- version ----
	switch f {
	case "deb", "ipk":
		if want := debVersion(m); dm.Version != want {
			vs.add("C02.version", f, "Version %q, expected %q", dm.Version, want)
		}
	case "rpm":
		if want := rpmVersion(m); dm.Version != want {
			vs.add("C02.version", f, "VERSION %q, expected %q", dm.Version, want)
		}
		wantRel := m.Release
		if wantRel == "" {
			wantRel = "1"
		}
		if dm.Release != wantRel {
			vs.add("C02.release", f, "RELEASE %q, expected %q", dm.Release, wantRel)
		}
		if dm.Epoch != m.Epoch {
			vs.add("C02.epoch", f, "EPOCH %q, configured %q", dm.Epoch, m.Epoch)
		}
	case "apk":
		v := dm.Version
		if !strings.HasPrefix(v, m.Version) {
			vs.add("C02.version", f, "pkgver %q does not start with version %q", v, m.Version)
		}
		rest := strings.TrimPrefix(v, m.Version)
		if m.Prerelease != "" && !strings.HasPrefix(rest, "_"+m.Prerelease) {
			vs.add("C02.version.prerelease", f, "pkgver %q does not carry prerelease %q after the version", v, m.Prerelease)
		}
		if m.Prerelease == "" && strings.HasPrefix(rest, "_") {
			vs.add("C02.version.prerelease", f, "pkgver %q carries a prerelease although none is configured", v)
		}
		if m.Release != "" && !strings.Contains(rest, "-r"+m.Release) {
			vs.add("C02.version.release", f, "pkgver %q does not carry release r%s", v, m.Release)
		}
		if m.VersionMetadata != "" && !strings.Contains(rest, m.VersionMetadata) {
			vs.add("C02.version.metadata", f, "pkgver %q does not carry metadata %q", v, m.VersionMetadata)
		}
	case "archlinux":
		pkgrel := "1"
		if m.Release != "" {
			pkgrel = m.Release
		}
		want := m.Version + strings.ReplaceAll(m.Prerelease, "-", "_") + "-" + pkgrel
		alt := m.Version + m.Prerelease + "-" + pkgrel
		if m.Epoch != "" {
			want = m.Epoch + ":" + want
			alt = m.Epoch + ":" + alt
		}
		if dm.Version != want && dm.Version != alt && m.Epoch == "" && m.Prerelease != "" && dm.Version == m.Version+"-"+pkgrel {
			vs.add("C02.version.prerelease-dropped", f, "pkgver %q lost prerelease %q (no epoch configured); expected %q", dm.Version, m.Prerelease, want)
		} else if dm.Version != want && dm.Version != alt {
			vs.add("C02.version", f, "pkgver %q, expected %q (epoch %q, version %q, prerelease %q, release %q)", dm.Version, want, m.Epoch, m.Version, m.Prerelease, m.Release)
		}
	}
	// ---- architecture ----
	wantArch, documented := "", false
	if ov := archOverride(c, f); ov != "" {
		wantArch, documented = ov, true
	} else if v, ok := table[f][m.Arch]; ok {
		wantArch, documented = v, true
	}
	gotArch := dm.Arch
	if f == "deb" && m.Platform != "" && m.Platform != "linux" {
		if !strings.HasPrefix(gotArch, m.Platform+"-") {
			vs.add("C02.platform", f, "Architecture %q does not carry the platform %q", gotArch, m.Platform)
		}
		gotArch = strings.TrimPrefix(gotArch, m.Platform+"-")
	}
	if documented && gotArch != wantArch {
		vs.add("C02.arch", f, "architecture %q for arch %q; www/docs/goarch-to-pkg.md (or the override) says %q", gotArch, m.Arch, wantArch)
	}
	// ---- simple fields ----
	cmp := func(clause, got, want string) {
		// a value may end in the line break a YAML block scalar leaves behind: that is layout, not content
		got, want = strings.TrimSpace(got), strings.TrimSpace(want)
		if got != want {
			vs.add("C02."+clause, f, "%s is %q, configured %q", clause, got, want)
		}
	}
	switch f {
	case "deb":
		cmp("maintainer", dm.Maintainer, m.Maintainer)
		cmp("homepage", dm.Homepage, m.Homepage)
		cmp("license", dm.License, m.License)
		cmp("section", dm.Section, m.Section)
		wp := m.Priority
		if wp == "" {
			wp = "optional"
		}
		cmp("priority", dm.Priority, wp)
	case "ipk":
		cmp("maintainer", dm.Maintainer, m.Maintainer)
		cmp("homepage", dm.Homepage, m.Homepage)
		cmp("license", dm.License, m.License)
		cmp("section", dm.Section, m.Section)
		cmp("vendor", dm.Vendor, m.Vendor)
		wp := m.Priority
		if wp == "" {
			wp = "optional"
		}
		cmp("priority", dm.Priority, wp)
	case "rpm":
		wantPackager := m.Maintainer
		if c.X != nil && c.X.RPMPackager != "" {
			wantPackager = c.X.RPMPackager
		}
		cmp("packager", dm.Maintainer, wantPackager)
		cmp("vendor", dm.Vendor, m.Vendor)
		cmp("homepage", dm.Homepage, m.Homepage)
		cmp("license", dm.License, m.License)
		wantOS := m.Platform
		if wantOS == "" {
			wantOS = "linux"
		}
		cmp("platform", dm.Platform, wantOS)
	case "apk":
		cmp("maintainer", dm.Maintainer, m.Maintainer)
		cmp("homepage", dm.Homepage, m.Homepage)
		cmp("license", dm.License, m.License)
	case "archlinux":
		cmp("homepage", dm.Homepage, m.Homepage)
		cmp("license", dm.License, m.License)
		wantPackager := "Unknown Packager"
		if c.X != nil && c.X.ArchPackager != "" {
			wantPackager = c.X.ArchPackager
		}
		cmp("packager", dm.Maintainer, wantPackager)
	}
	// ---- description ----
	want := normDesc(m.Description)
	switch f {
	case "deb", "ipk":
		if !eqStrings(dm.DescLines, want) {
			vs.add("C02.description", f, "description recovered by deb822 rules %q, configured %q", dm.DescLines, want)
		}
	case "rpm":
		got := normDesc(strings.Join(dm.DescLines, "\n"))
		if !eqStrings(got, want) {
			vs.add("C02.description", f, "DESCRIPTION %q, configured %q", got, want)
		}
		wantSum := want[0]
		if c.X != nil && c.X.RPMSummary != "" {
			wantSum = c.X.RPMSummary
		}
		if strings.TrimSpace(dm.Summary) != wantSum {
			vs.add("C02.summary", f, "SUMMARY %q, expected %q", dm.Summary, wantSum)
		}
	case "apk":
		if strings.TrimSpace(dm.DescLines[0]) != want[0] {
			vs.add("C02.synopsis", f, "pkgdesc first line %q, synopsis %q", dm.DescLines[0], want[0])
		}
	case "archlinux":
		flat := dm.DescLines[0]
		if strings.Contains(d.ControlText, "\npkgdesc = ") {
			// the value must be one physical line: nothing of the description may spill into another key
			for _, l := range want[1:] {
				if l != "" && !strings.Contains(flat, l) {
					vs.add("C02.description", f, "pkgdesc %q lost description line %q", flat, l)
				}
			}
		}
		if !strings.HasPrefix(strings.TrimSpace(flat), want[0]) {
			vs.add("C02.synopsis", f, "pkgdesc %q does not start with synopsis %q", flat, want[0])
		}
	}
	// ---- relations ----
	owner := map[string]map[string]bool{}
	for _, rel := range allRels {
		for _, it := range configuredRel(c, f, rel) {
			if owner[it] == nil {
				owner[it] = map[string]bool{}
			}
			owner[it][rel] = true
		}
	}
	for _, rel := range allRels {
		if !dm.HasRel[rel] {
			continue
		}
		got := dm.Rel[rel]
		want := configuredRel(c, f, rel)
		if f == "rpm" {
			// rpm adds the self-provide (and may add rpmlib() requirements)
			var filtered []string
			for _, g := range got {
				if strings.HasPrefix(g, "rpmlib(") || (rel == "provides" && strings.HasPrefix(g, m.Name+" = ")) {
					continue
				}
				filtered = append(filtered, g)
			}
			got = filtered
		}
		if !eqStrings(got, want) {
			vs.add("C02.relation."+rel, f, "%s: package lists %q, configured %q", rel, got, want)
		}
		for _, g := range got {
			if o, ok := owner[g]; ok && !o[rel] {
				vs.add("C02.relation.wrong-tag", f, "%q is configured under %v but appears under %s", g, sortedKeys(o), rel)
			}
		}
	}
	checkC02Extras(c, f, d, vs)
}

func checkC02Extras(c *BuildCase, f string, d *Decoded, vs *vlist) {
	x := c.X
	if x == nil {
		x = &Extras{}
	}
	switch f {
	case "deb":
		for k, v := range x.DebFields {
			got, ok := d.Control.Get(k)
			if v == "" {
				if d.Control.Count(k) != 0 {
					vs.add("C02.deb.fields", f, "empty custom field %s was written", k)
				}
				continue
			}
			if !ok || got != v {
				vs.add("C02.deb.fields", f, "custom field %s: %q, configured %q", k, got, v)
			}
		}
		std := map[string]bool{"package": true, "version": true, "section": true, "priority": true, "architecture": true, "license": true, "maintainer": true,
			"installed-size": true, "replaces": true, "provides": true, "pre-depends": true, "depends": true, "recommends": true, "suggests": true,
			"conflicts": true, "breaks": true, "homepage": true, "description": true}
		for _, fl := range d.Control.Fields {
			if std[strings.ToLower(fl.K)] {
				continue
			}
			if v, ok := x.DebFields[fl.K]; !ok || v == "" {
				vs.add("C02.deb.fields-extra", f, "control carries field %s which is not configured", fl.K)
			}
		}
		var wantTrig []string
		for _, k := range []string{"interest", "interest_await", "interest_noawait", "activate", "activate_await", "activate_noawait"} {
			for _, n := range x.DebTriggers[k] {
				wantTrig = append(wantTrig, strings.ReplaceAll(k, "_", "-")+" "+n)
			}
		}
		tm, has := d.ControlMember("triggers")
		if has != (len(wantTrig) > 0) {
			vs.add("C02.deb.triggers", f, "triggers member present=%v, %d triggers configured", has, len(wantTrig))
		} else if has {
			// deb-triggers(5): one directive per line; blanks at the edges, empty lines and everything after '#' are
			// discarded; no order among directives is defined, so the directives are compared as a multiset
			var got []string
			for _, l := range strings.Split(string(tm.Data), "\n") {
				if i := strings.IndexByte(l, '#'); i >= 0 {
					l = l[:i]
				}
				if l = strings.TrimSpace(l); l != "" {
					got = append(got, strings.Join(strings.Fields(l), " "))
				}
			}
			sort.Strings(got)
			sort.Strings(wantTrig)
			if !eqStrings(got, wantTrig) {
				vs.add("C02.deb.triggers", f, "triggers %q, configured %q", got, wantTrig)
			}
		}
	case "ipk":
		opt := func(field, want string) {
			got, ok := d.Control.Get(field)
			if want == "" && d.Control.Count(field) != 0 {
				vs.add("C02.ipk.extras", f, "%s present (%q) but not configured", field, got)
			}
			if want != "" && (!ok || got != want) {
				vs.add("C02.ipk.extras", f, "%s: %q, configured %q", field, got, want)
			}
		}
		opt("ABIVersion", x.IPKABI)
		var alts []string
		for _, a := range x.IPKAlternatives {
			alts = append(alts, fmt.Sprintf("%d:%s:%s", a.Priority, a.LinkName, a.Target))
		}
		opt("Alternatives", strings.Join(alts, ", "))
		opt("Tags", strings.Join(x.IPKTags, ", "))
		yes := func(b bool) string {
			if b {
				return "yes"
			}
			return ""
		}
		opt("Essential", yes(x.IPKEssential))
		opt("Auto-Installed", yes(x.IPKAutoInstalled))
		reserved := map[string]bool{"version": true, "maintainer": true, "installed-size": true}
		for k, v := range x.IPKFields {
			if reserved[strings.ToLower(k)] {
				if n := d.Control.Count(k); n > 1 {
					vs.add("C02.ipk.reserved-field", f, "reserved field %s appears %d times", k, n)
				}
				if got, _ := d.Control.Get(k); v != "" && got == v {
					vs.add("C02.ipk.reserved-field", f, "custom value for reserved field %s was written", k)
				}
				continue
			}
			got, ok := d.Control.Get(k)
			if v == "" {
				if d.Control.Count(k) != 0 {
					vs.add("C02.ipk.fields", f, "empty custom field %s was written", k)
				}
				continue
			}
			if !ok || got != v {
				vs.add("C02.ipk.fields", f, "custom field %s: %q, configured %q", k, got, v)
			}
		}
	case "rpm":
		h := &d.RPM.Hdr
		str := func(tag uint32) string { s, _ := h.String(tag); return s }
		if g := str(1016); g != x.RPMGroup {
			vs.add("C02.rpm.group", f, "GROUP %q, configured %q", g, x.RPMGroup)
		}
		if g := str(1007); g != c.RPMBuildHost {
			vs.add("C02.rpm.buildhost", f, "BUILDHOST %q, configured %q", g, c.RPMBuildHost)
		}
		pf, _ := h.Strings(1098)
		if !eqStrings(pf, x.RPMPrefixes) {
			vs.add("C02.rpm.prefixes", f, "PREFIXES %q, configured %q", pf, x.RPMPrefixes)
		}
	case "archlinux":
		wantBase := c.Meta.Name
		if x.ArchPkgbase != "" {
			wantBase = x.ArchPkgbase
		}
		if g, _ := kvOne(d.PkgInfo, "pkgbase"); g != wantBase {
			vs.add("C02.arch.pkgbase", f, "pkgbase %q, expected %q", g, wantBase)
		}
	}
	// ---- changelog ----
	n := 0
	if c.Changelog != "" {
		ti := indexTree(c.Tree)
		n = strings.Count(string(ti.byRel[c.Changelog].Content()), "- semver:")
	}
	entries := changelogEntries(n)
	switch f {
	case "deb":
		var cl *PEntry
		for i := range d.Payload {
			if d.Payload[i].Abs == "/usr/share/doc/"+c.Meta.Name+"/changelog.Debian.gz" {
				cl = &d.Payload[i]
			}
		}
		if (cl != nil) != (c.Changelog != "") {
			vs.add("C02.deb.changelog", f, "changelog.Debian.gz present=%v, changelog configured=%v", cl != nil, c.Changelog != "")
		} else if cl != nil {
			txt, _, err := Gunzip(cl.Data)
			if err != nil {
				vs.add("C02.deb.changelog", f, "changelog.Debian.gz is not gzip: %v", err)
			}
			for _, e := range entries {
				if !strings.Contains(string(txt), "("+e.Semver+")") {
					vs.add("C02.deb.changelog", f, "changelog lacks version %s", e.Semver)
				}
				for _, nt := range e.Notes {
					if !strings.Contains(string(txt), nt) {
						vs.add("C02.deb.changelog", f, "changelog lacks note %q", nt)
					}
				}
				if !strings.Contains(string(txt), e.Packager) {
					vs.add("C02.deb.changelog", f, "changelog lacks packager %q", e.Packager)
				}
			}
		}
	case "rpm":
		h := &d.RPM.Hdr
		times, _ := h.Ints(1080)
		names, _ := h.Strings(1081)
		texts, _ := h.Strings(1082)
		if len(times) != len(entries) || len(names) != len(entries) || len(texts) != len(entries) {
			vs.add("C02.rpm.changelog", f, "CHANGELOG tags have %d/%d/%d items, %d entries configured", len(times), len(names), len(texts), len(entries))
		} else {
			for i, e := range entries {
				if int64(times[i]) != e.Date {
					vs.add("C02.rpm.changelog", f, "CHANGELOGTIME[%d] %d, configured %d", i, times[i], e.Date)
				}
				if names[i] != e.Packager+" - "+e.Semver {
					vs.add("C02.rpm.changelog", f, "CHANGELOGNAME[%d] %q", i, names[i])
				}
				for _, nt := range e.Notes {
					if !strings.Contains(texts[i], "- "+nt) {
						vs.add("C02.rpm.changelog", f, "CHANGELOGTEXT[%d] %q lacks note %q", i, texts[i], nt)
					}
				}
			}
		}
	}
}

func checkC02(c *BuildCase, table map[string]map[string]string) []Violation {
	var vs vlist
	err := c.withRoot(func(root string) error {
		b := buildAll(c, root, "C02", &vs)
		for _, f := range c.formats() {
			if d := b.decoded[f]; d != nil {
				checkC02Format(c, f, d, table, &vs)
			}
		}
		return nil
	})
	if err != nil {
		panic(err)
	}
	return vs
}

func nontrivialC02(c *BuildCase) bool {
	m := &c.Meta
	kinds := 0
	for _, l := range [][]string{m.Replaces, m.Provides, m.Depends, m.Recommends, m.Suggests, m.Conflicts} {
		if len(l) > 0 {
			kinds++
		}
	}
	parts := 0
	for _, s := range []string{m.Epoch, m.Prerelease, m.VersionMetadata, m.Release} {
		if s != "" {
			parts++
		}
	}
	return kinds >= 3 || strings.Contains(strings.TrimSpace(m.Description), "\n") || parts >= 2
}

func metaBaseCase() *BuildCase {
	return &BuildCase{
		MTime:        1000000000,
		RPMBuildHost: "buildhost.example",
		Tree:         []FNode{{Rel: "src/f", Kind: "file", Size: 10, Seed: 1, Mode: 0o644, MTime: 900000000}},
		Contents:     []Entry{{Src: "src/f", Dst: "/usr/share/m/f", Form: "single"}},
	}
}

func TestC02(t *testing.T) {
	st := newStats("C02")
	defer st.Flush()
	table, err := loadArchTable()
	if err != nil {
		t.Fatalf("cannot read the documented architecture table: %v", err)
	}
	var rc BuildCase
	if replayCase(&rc) {
		st.Record(&rc, true, "replay")
		st.Report(t, &rc, checkC02(&rc, table))
		return
	}
	// exhaustive: documented GOARCH values (and an unknown one) x five formats x {no override, override}
	cells, silent := 0, 0
	arches := append(append([]string{}, docArches...), "riscv64", "loong64")
	for _, a := range arches {
		for _, ovKind := range []string{"", "custom", "goarch"} {
			ov := ovKind != ""
			c := metaBaseCase()
			c.Meta = Meta{Name: "archcell", Arch: a, Version: "1.0.0", Maintainer: "V <v@example.com>", Description: "arch matrix"}
			switch ovKind {
			case "custom":
				c.X = &Extras{DebArch: "odeb", RPMArch: "orpm", APKArch: "oapk", ArchArch: "oarch", IPKArch: "oipk"}
			case "goarch":
				// the override is itself a GOARCH name the table would translate: it must still be used verbatim
				c.X = &Extras{DebArch: "arm64", RPMArch: "arm64", APKArch: "386", ArchArch: "amd64", IPKArch: "386"}
				if a == "arm64" || a == "386" || a == "amd64" {
					c.X = &Extras{DebArch: "arm7", RPMArch: "arm7", APKArch: "arm7", ArchArch: "arm7", IPKArch: "arm7"}
				}
			}
			for _, f := range AllFormats {
				if _, ok := table[f][a]; !ok && !ov {
					silent++
				}
				cells++
			}
			st.Record(c, true, "arch-matrix")
			st.Report(t, c, checkC02(c, table))
		}
	}
	st.Exhaustive["GOARCH x format x {no override, custom override, GOARCH-named override}"] = cells
	st.Label("arch-matrix-docs-silent-cells", silent)
	rapid.Check(t, func(rt *rapid.T) {
		c := metaBaseCase()
		genFullMeta(rt, c)
		switch rapid.IntRange(0, 5).Draw(rt, "changelog") {
		case 0:
			addChangelog(c, 0)
		case 1:
			addChangelog(c, 1)
		case 2:
			addChangelog(c, 3)
		}
		var labels []string
		if c.Constraints {
			labels = append(labels, "constraints")
		}
		if c.Changelog != "" {
			labels = append(labels, "changelog")
		}
		if strings.Contains(strings.TrimSpace(c.Meta.Description), "\n\n") {
			labels = append(labels, "desc-blank-line")
		}
		if strings.Contains(strings.TrimSpace(c.Meta.Description), "\n") {
			labels = append(labels, "desc-multiline")
		}
		if c.Meta.Epoch != "" {
			labels = append(labels, "epoch")
		}
		if c.Meta.Prerelease != "" {
			labels = append(labels, "prerelease")
		}
		// a non-linux platform is only meaningful for deb and rpm (apk and archlinux refuse it; ipk has no notion of it)
		if rapid.IntRange(0, 5).Draw(rt, "foreign-platform") == 0 {
			c.Meta.Platform = rapid.SampledFrom([]string{"darwin", "freebsd"}).Draw(rt, "platform")
			c.Formats = []string{"deb", "rpm", "ipk"}
			labels = append(labels, "platform:"+c.Meta.Platform)
		}
		st.Record(c, nontrivialC02(c), labels...)
		st.Report(rt, c, checkC02(c, table))
	})
}

var _ = sort.Strings
