package props

import (
	"crypto/sha256"
	"encoding/hex"
	"fmt"
	"io"
	"os"
	"os/exec"
	"path"
	"path/filepath"
	"sort"
	"strings"
	"testing"
	"time"

	"pgregory.net/rapid"
)

// built holds the outputs of one case for all formats.
type built struct {
	root    string
	bytes   map[string][]byte
	decoded map[string]*Decoded
	plans   map[string]map[string]*ExpNode
}

// buildAll packages and decodes the case for every format. Build or decode errors
// are reported as violations of clause <prop>.build / <prop>.decode.
func buildAll(c *BuildCase, root, prop string, vs *vlist) *built {
	b := &built{root: root, bytes: map[string][]byte{}, decoded: map[string]*Decoded{}, plans: map[string]map[string]*ExpNode{}}
	for _, f := range c.formats() {
		plan, err := Plan(c, f)
		if err != nil {
			panic(fmt.Sprintf("generator produced a case the reference planner rejects: %v", err))
		}
		b.plans[f] = plan
		if preludeWanted(c) {
			failingPrelude(c, root, f)
		}
		out, err := c.BuildOne(root, f)
		if err != nil {
			vs.add(prop+".build", f, "valid configuration rejected: %v", err)
			continue
		}
		b.bytes[f] = out
		d, err := Decode(f, out)
		if err != nil {
			vs.add(prop+".decode", f, "independent reader rejects the package: %v", err)
			if d == nil {
				continue
			}
		}
		b.decoded[f] = d
	}
	return b
}

// modeOf returns the permission value a package stores for an entry: the complete
// tar mode field (which by definition holds permission bits only), or the rpm
// FILEMODES value without its file-type bits.
func modeOf(f string, e *PEntry) int64 {
	if f == "rpm" {
		return e.Mode &^ 0o170000
	}
	return e.Mode
}

// failingPrelude gives every checked build a history: in the same process, builds of the same format that FAIL come
// first - one because the destination writer refuses the first write, one because a configured maintainer script
// does not exist (the failure then happens late, inside the assembly of the control data). A packager must not carry
// anything from a failed build into the next one; if it does, the checked build that follows shows it.
//
// A failed build leaves the goroutines and block buffers of nfpm's parallel gzip writers behind (the packagers return
// without closing them), a few MiB each that are never reclaimed. In the long thorough runs the prelude therefore
// precedes every third case, chosen by a function of the case; quick runs and replays always have it.
func preludeWanted(c *BuildCase) bool {
	if !thorough() || os.Getenv("VERIF_REPLAY") != "" {
		return true
	}
	return (len(c.Tree)*31+len(c.Contents)*7+int(c.MTime%1000))%3 == 0
}

func failingPrelude(c *BuildCase, root, f string) {
	if cfg, err := c.ParseConfigFor(root, f); err == nil {
		_ = packageInto(&cfg, f, &faultWriter{failAt: 0, budget: -1})
	}
	bad := cloneCase(c)
	if bad.Scripts == nil {
		bad.Scripts = map[string]string{}
	}
	// the script that sorts last for this format, so that everything before it is rendered first
	slots := sortedKeys(slotsOf(f))
	inner := slotsOf(f)
	sort.Slice(slots, func(i, j int) bool { return inner[slots[i]] < inner[slots[j]] })
	if len(slots) > 0 {
		bad.Scripts[slots[len(slots)-1]] = "scripts/this-script-does-not-exist.sh"
		if cfg, err := bad.ParseConfigFor(root, f); err == nil {
			_ = packageInto(&cfg, f, io.Discard)
		}
	}
}

// rewriteSources gives every non-empty regular source file below root new bytes of the same length and puts its
// modification time back (what a rebuild after an in-place edit with preserved times, `cp -p` or a version bump of
// equal width looks like). It returns the case describing the tree as it now is.
func rewriteSources(c *BuildCase, root string) *BuildCase {
	c2 := cloneCase(c)
	for i := range c2.Tree {
		n := &c2.Tree[i]
		if n.Kind != "file" || !strings.HasPrefix(n.Rel, "src/") || n.Size == 0 || n.Text != "" {
			continue
		}
		n.Seed += 7919
		p := filepath.Join(root, n.Rel)
		if err := os.WriteFile(p, n.Content(), 0o600); err != nil {
			panic(err)
		}
		if n.MTime != 0 {
			t := time.Unix(n.MTime, n.NS)
			if err := os.Chtimes(p, t, t); err != nil {
				panic(err)
			}
		}
	}
	// writing into a directory does not change its times, creating or removing entries would
	return c2
}

func shaOf(b []byte) string {
	s := sha256.Sum256(b)
	return hex.EncodeToString(s[:])
}

// payloadMap indexes decoded payload by absolute path; duplicates are violations.
func payloadMap(prop, f string, d *Decoded, vs *vlist) map[string]*PEntry {
	m := map[string]*PEntry{}
	for i := range d.Payload {
		e := &d.Payload[i]
		if f == "deb" && strings.HasSuffix(e.Abs, "/changelog.Debian.gz") && strings.HasPrefix(e.Abs, "/usr/share/doc/") {
			continue // deb-only generated entry
		}
		if _, dup := m[e.Abs]; dup {
			vs.add(prop+".duplicate-entry", f, "payload lists %s twice", e.Abs)
		}
		m[e.Abs] = e
	}
	return m
}

func compareTree(c *BuildCase, f string, d *Decoded, plan map[string]*ExpNode, vs *vlist) {
	got := payloadMap("C01", f, d, vs)
	ti := indexTree(c.Tree)
	for _, p := range sortedKeys(plan) {
		exp := plan[p]
		e, ok := got[p]
		if !ok {
			kind := exp.Kind
			if exp.Implied {
				kind = "implied-dir"
			}
			vs.add("C01.missing."+kind, f, "%s (%s, entry %d) is not in the payload", p, exp.Kind, exp.Entry)
			continue
		}
		switch exp.Kind {
		case "ghost":
			if !e.Ghost {
				vs.add("C01.ghost.has-payload", f, "%s is a ghost but has a payload entry", p)
			}
			continue
		case "file":
			if e.Kind != "file" {
				vs.add("C01.kind", f, "%s: expected regular file, got %s", p, e.Kind)
				continue
			}
			src := ti.byRel[exp.SrcRel]
			want := src.Content()
			if shaOf(want) != shaOf(e.Data) {
				vs.add("C01.file.bytes", f, "%s: %d bytes shipped, source %s has %d bytes; content differs", p, len(e.Data), exp.SrcRel, len(want))
			}
			if modeOf(f, e) != exp.Perm {
				vs.add("C01.file.mode", f, "%s: mode %04o, expected %04o (entry %d, src mode %04o, umask %03o)", p, modeOf(f, e), exp.Perm, exp.Entry, src.Mode, effUmask(c))
			}
			if e.Owner != exp.Owner {
				vs.add("C01.file.owner", f, "%s: owner %q, expected %q", p, e.Owner, exp.Owner)
			}
			if e.Group != exp.Group {
				vs.add("C01.file.group", f, "%s: group %q, expected %q", p, e.Group, exp.Group)
			}
			if exp.MTime != 0 && e.MTime != exp.MTime && (exp.MTimeAlt == 0 || e.MTime != exp.MTimeAlt) {
				vs.add("C01.file.mtime", f, "%s: mtime %d, expected %d", p, e.MTime, exp.MTime)
			}
		case "dir":
			if e.Kind != "dir" {
				vs.add("C01.kind", f, "%s: expected directory, got %s", p, e.Kind)
				continue
			}
			if exp.Implied {
				continue
			}
			if modeOf(f, e) != exp.Perm {
				vs.add("C01.dir.mode", f, "%s: mode %04o, expected %04o", p, modeOf(f, e), exp.Perm)
			}
			if e.Owner != exp.Owner {
				vs.add("C01.dir.owner", f, "%s: owner %q, expected %q", p, e.Owner, exp.Owner)
			}
			if e.Group != exp.Group {
				vs.add("C01.dir.group", f, "%s: group %q, expected %q", p, e.Group, exp.Group)
			}
		case "symlink":
			if e.Kind != "symlink" {
				vs.add("C01.kind", f, "%s: expected symlink, got %s", p, e.Kind)
				continue
			}
			if e.Link != exp.Target && path.Clean(e.Link) != path.Clean(exp.Target) {
				vs.add("C01.symlink.target", f, "%s: target %q, expected literal %q", p, e.Link, exp.Target)
			}
			if filepath.IsAbs(e.Link) && strings.HasPrefix(e.Link, "/tmp/") && !strings.HasPrefix(exp.Target, "/tmp/") {
				vs.add("C01.symlink.resolved", f, "%s: target %q was resolved against the build host", p, e.Link)
			}
		}
	}
	var extra []string
	for p := range got {
		if _, ok := plan[p]; !ok {
			extra = append(extra, p)
		}
	}
	sort.Strings(extra)
	for _, p := range extra {
		vs.add("C01.extra."+got[p].Kind, f, "%s (%s) is in the payload but not denoted by the contents", p, got[p].Kind)
	}
}

// crossCompare is the model-independent leg: the logical trees of the tar-based
// formats agree with each other, and rpm agrees after removing implied directories
// and entries that exist only for one packager.
func crossCompare(c *BuildCase, b *built, vs *vlist) {
	type attr struct {
		kind, sha, owner, group, link string
		perm, mtime                   int64
	}
	view := func(f string) map[string]attr {
		d := b.decoded[f]
		if d == nil {
			return nil
		}
		m := map[string]attr{}
		var tmp vlist
		for p, e := range payloadMap("C01", f, d, &tmp) {
			a := attr{kind: e.Kind}
			switch e.Kind {
			case "file":
				a.sha, a.owner, a.group, a.perm, a.mtime = shaOf(e.Data), e.Owner, e.Group, modeOf(f, e), e.MTime
			case "dir":
				a.owner, a.group, a.perm = e.Owner, e.Group, modeOf(f, e)
			case "symlink":
				a.link = path.Clean(e.Link)
			}
			if e.Ghost {
				a = attr{kind: "ghost"}
			}
			m[p] = a
		}
		return m
	}
	// paths that belong to entries addressed to one packager only, or to rpm-only types
	special := map[string]bool{}
	for _, f := range c.formats() {
		for p, n := range b.plans[f] {
			if n.Entry >= 0 && (c.Contents[n.Entry].Packager != "" || c.Contents[n.Entry].isRPMOnly()) {
				special[p] = true
			}
		}
	}
	implied := map[string]bool{}
	for _, f := range c.formats() {
		for p, n := range b.plans[f] {
			if n.Implied {
				implied[p] = true
			}
		}
	}
	ref := ""
	for _, f := range []string{"deb", "ipk", "apk", "archlinux"} {
		if b.decoded[f] != nil {
			ref = f
			break
		}
	}
	if ref == "" {
		return
	}
	rv := view(ref)
	for _, f := range c.formats() {
		if f == ref || b.decoded[f] == nil {
			continue
		}
		fv := view(f)
		keys := map[string]bool{}
		for p := range rv {
			keys[p] = true
		}
		for p := range fv {
			keys[p] = true
		}
		for _, p := range sortedKeys(keys) {
			if special[p] {
				continue
			}
			a, inRef := rv[p]
			bb, inF := fv[p]
			if f == "rpm" && (implied[p] || (inRef && a.kind == "dir" && !inF && isAncestorOfSpecial(p, special))) {
				continue
			}
			if ancestorOnlyOfSpecial(p, special, rv, fv) {
				continue
			}
			switch {
			case inRef && !inF:
				vs.add("C01.cross.missing", f, "%s (%s) is in the %s package but not in the %s package", p, a.kind, ref, f)
			case !inRef && inF:
				vs.add("C01.cross.extra", f, "%s (%s) is in the %s package but not in the %s package", p, bb.kind, f, ref)
			case a != bb:
				// timestamps are compared at one-second granularity: writers may floor or round
				if d := a.mtime - bb.mtime; d >= -1 && d <= 1 {
					a2 := a
					a2.mtime = bb.mtime
					if a2 == bb {
						continue
					}
				}
				// implied directories carry no declared attributes
				if a.kind == "dir" && bb.kind == "dir" && implied[p] {
					continue
				}
				vs.add("C01.cross.attr", f, "%s differs between %s %+v and %s %+v", p, ref, a, f, bb)
			}
		}
	}
}

func isAncestorOfSpecial(p string, special map[string]bool) bool {
	for s := range special {
		if strings.HasPrefix(s, p+"/") {
			return true
		}
	}
	return false
}

// ancestorOnlyOfSpecial: a directory that exists in one format only because a
// packager-specific entry lives below it.
func ancestorOnlyOfSpecial[T any](p string, special map[string]bool, a, b map[string]T) bool {
	_, inA := a[p]
	_, inB := b[p]
	if inA == inB {
		return false
	}
	return isAncestorOfSpecial(p, special)
}

func classifyBuildCase(c *BuildCase) (labels []string, kinds map[string]bool, nEntries int) {
	kinds = map[string]bool{}
	for _, e := range c.Contents {
		t := e.Type
		if t == "" {
			t = "file"
		}
		labels = append(labels, "type:"+t, "form:"+e.Form)
		if e.Packager != "" {
			labels = append(labels, "tagged")
			kinds["tagged"] = true
		}
		if e.FI != nil {
			labels = append(labels, "file_info")
			kinds["file_info"] = true
			if e.FI.Mode&0o7000 != 0 {
				labels = append(labels, "special-mode-bits")
			}
		}
		if e.Form == "glob" {
			kinds["glob"] = true
		}
		if e.Type == "tree" {
			kinds["tree"] = true
		}
	}
	for _, n := range c.Tree {
		if n.Kind == "symlink" {
			kinds["disk-symlink"] = true
			labels = append(labels, "disk-symlink")
		}
		if n.Kind == "file" {
			switch {
			case n.Size == 0:
				labels = append(labels, "empty-file")
			case n.Size > 1<<20:
				labels = append(labels, "file>1MiB")
			case n.Size > 128<<10:
				labels = append(labels, "file>128KiB")
			}
		}
		if hasGlobMeta(pathBase(n.Rel)) {
			labels = append(labels, "name-with-glob-meta")
		}
		if strings.Contains(pathBase(n.Rel), " ") {
			labels = append(labels, "name-with-space")
		}
	}
	if c.DisableGlobbing {
		labels = append(labels, "disable_globbing")
	}
	if c.MTime == 0 {
		labels = append(labels, "pkg-mtime-unset")
	}
	labels = append(labels, "deb:"+c.DebCompression, "rpm:"+c.RPMCompression)
	return labels, kinds, len(c.Contents)
}

func checkC01(c *BuildCase) []Violation {
	var vs vlist
	err := c.withRoot(func(root string) error {
		b := buildAll(c, root, "C01", &vs)
		for _, f := range c.formats() {
			if d := b.decoded[f]; d != nil {
				compareTree(c, f, d, b.plans[f], &vs)
			}
		}
		crossCompare(c, b, &vs)
		if len(vs) == 0 && c.Again {
			// history: the very same source paths are packaged again, now with another umask, after every file got
			// new bytes of the same length (times preserved) and after the mode and mtime of one source changed
			c2 := rewriteSources(c, root)
			c2.Again = false
			c2.Umask = 0o077
			if c.Umask == 0o077 {
				c2.Umask = 0o022
			}
			for i := range c2.Tree {
				if c2.Tree[i].Kind == "file" && strings.HasPrefix(c2.Tree[i].Rel, "src/") {
					c2.Tree[i].Mode = (c2.Tree[i].Mode ^ 0o044) | 0o400
					c2.Tree[i].MTime += 3600
					p := filepath.Join(root, c2.Tree[i].Rel)
					_ = os.Chmod(p, goMode(c2.Tree[i].Mode))
					t := time.Unix(c2.Tree[i].MTime, c2.Tree[i].NS)
					_ = os.Chtimes(p, t, t)
					break
				}
			}
			b2 := buildAll(c2, root, "C01", &vs)
			for _, f := range c2.formats() {
				if d := b2.decoded[f]; d != nil {
					var again vlist
					compareTree(c2, f, d, b2.plans[f], &again)
					for _, v := range again {
						v.Detail = "second packaging of the same paths (umask " + fmt.Sprintf("%03o", c2.Umask) + ", files rewritten with equal length and times, one source re-chmod'ed): " + v.Detail
						vs = append(vs, v)
					}
				}
			}
		}
		return nil
	})
	if err != nil {
		panic(err)
	}
	return vs
}

// manyFilesProbe: "any number of entries". A payload with more regular files than the process may hold open at once
// (the command runs under `ulimit -n 40` with 120 files; real limits are 1024 files and more) is a valid
// configuration for every format: a packager must not keep every source open until the end.
func manyFilesProbe(t *testing.T, st *Stats) {
	if nfpmBinary() == "" {
		return
	}
	c := &BuildCase{ManyFilesProbe: true, Meta: Meta{Name: "many", Arch: "amd64", Version: "1.0.0", Maintainer: "V <v@example.com>", Description: "many files"}, MTime: 1000000000, RPMBuildHost: "h"}
	c.Tree = append(c.Tree, FNode{Rel: "src/many", Kind: "dir", Mode: 0o755, MTime: 900000000})
	for i := 0; i < 120; i++ {
		c.Tree = append(c.Tree, FNode{Rel: fmt.Sprintf("src/many/f%03d", i), Kind: "file", Size: 3, Seed: 100 + i, Mode: 0o644, MTime: 900000000})
	}
	c.Contents = []Entry{{Src: "src/many", Dst: "/opt/many", Type: "tree", Form: "tree"}}
	st.Record(map[string]any{"probe": "120 files under ulimit -n 40"}, true, "many-files-probe")
	st.Report(t, c, checkManyFiles(c))
}

// treeOwnerProbe: a tree whose destination is a directory every distribution ships (/srv, /opt, /var/lib, /usr/bin) with
// a declared owner and group: the declaration holds for the files the tree places there. (What the packagers do with the
// well-known directory itself is not asserted: the statement does not say, and nfpm deliberately leaves it alone.)
func treeOwnerProbe(t *testing.T, st *Stats) {
	for i, dst := range []string{"/srv", "/opt", "/var/lib", "/usr/bin", "srv"} {
		c := &BuildCase{TreeOwnerProbe: true, Meta: Meta{Name: "towner", Arch: "amd64", Version: "1.0.0", Maintainer: "V <v@example.com>", Description: "tree owner"}, MTime: 1000000000, RPMBuildHost: "h"}
		c.Tree = []FNode{
			{Rel: "src/t", Kind: "dir", Mode: 0o755, MTime: 900000000},
			{Rel: "src/t/app", Kind: "dir", Mode: 0o750, MTime: 900000000},
			{Rel: "src/t/app/data.bin", Kind: "file", Size: 9, Seed: 5 + i, Mode: 0o640, MTime: 900000000},
			{Rel: "src/t/top.txt", Kind: "file", Size: 4, Seed: 6 + i, Mode: 0o644, MTime: 900000000},
		}
		c.Contents = []Entry{{Src: "src/t", Dst: dst, Type: "tree", Form: "tree", FI: &FileInfoSpec{Owner: "appuser", Group: "appgrp"}}}
		st.Record(c, true, "tree-owner-probe")
		st.Report(t, c, checkTreeOwner(c))
	}
}

func checkTreeOwner(c *BuildCase) []Violation {
	var vs vlist
	err := c.withRoot(func(root string) error {
		for _, f := range AllFormats {
			raw, err := c.BuildOne(root, f)
			if err != nil {
				vs.add("C01.build", f, "valid configuration rejected: %v", err)
				continue
			}
			d, err := Decode(f, raw)
			if err != nil {
				vs.add("C01.decode", f, "%v", err)
				continue
			}
			want := c.Contents[0].FI
			n := 0
			for _, e := range d.Payload {
				if e.Kind != "file" {
					continue
				}
				n++
				if e.Owner != want.Owner {
					vs.add("C01.file.owner", f, "%s: owner %q, the tree entry declares %q", e.Abs, e.Owner, want.Owner)
				}
				if e.Group != want.Group {
					vs.add("C01.file.group", f, "%s: group %q, the tree entry declares %q", e.Abs, e.Group, want.Group)
				}
			}
			if n != 2 {
				vs.add("C01.missing.file", f, "%d of 2 files of the tree are in the payload", n)
			}
			// the same destination spelled without / with the leading slash denotes the same place: same entries,
			// same owners (the normalised absolute destination is what counts)
			c2 := cloneCase(c)
			if strings.HasPrefix(c.Contents[0].Dst, "/") {
				c2.Contents[0].Dst = strings.TrimPrefix(c.Contents[0].Dst, "/")
			} else {
				c2.Contents[0].Dst = "/" + c.Contents[0].Dst
			}
			if raw2, err := c2.BuildOne(root, f); err == nil {
				if d2, err := Decode(f, raw2); err == nil {
					own := func(d *Decoded) map[string]string {
						m := map[string]string{}
						for _, e := range d.Payload {
							m[e.Abs] = e.Kind + " " + e.Owner + ":" + e.Group
						}
						return m
					}
					a, b := own(d), own(d2)
					for _, p := range sortedKeys(a) {
						if a[p] != b[p] {
							vs.add("C01.spelling-dependent", f, "%s is %q with dst %q but %q with dst %q", p, a[p], c.Contents[0].Dst, b[p], c2.Contents[0].Dst)
						}
					}
				}
			}
		}
		return nil
	})
	if err != nil {
		panic(err)
	}
	return vs
}

func checkManyFiles(c *BuildCase) []Violation {
	bin := nfpmBinary()
	var vs vlist
	err := c.withRoot(func(root string) error {
		for _, f := range AllFormats {
			cfgPath := filepath.Join(root, "many-"+f+".yaml")
			if err := os.WriteFile(cfgPath, c.YAMLFor(root, f), 0o644); err != nil {
				return err
			}
			target := filepath.Join(root, "many-out"+extOf[f])
			cmd := exec.Command("bash", "-c", `ulimit -n 40 && exec "$0" package -f "$1" -p "$2" -t "$3"`, bin, cfgPath, f, target)
			cmd.Dir = root
			if out, err := cmd.CombinedOutput(); err != nil {
				vs.add("C01.build", f, "a tree of 120 small files cannot be packaged while at most 40 files may be open: %v: %s", err, strings.TrimSpace(string(out)))
				continue
			}
			raw, err := os.ReadFile(target)
			if err != nil {
				return err
			}
			d, err := Decode(f, raw)
			if err != nil {
				vs.add("C01.decode", f, "many-files package: %v", err)
				continue
			}
			n := 0
			for _, e := range d.Payload {
				if e.Kind == "file" {
					n++
				}
			}
			if n != 120 {
				vs.add("C01.missing.file", f, "many-files package holds %d of 120 files", n)
			}
		}
		return nil
	})
	if err != nil {
		panic(err)
	}
	return vs
}

func nontrivialC01(c *BuildCase) bool {
	_, kinds, _ := classifyBuildCase(c)
	plan, err := Plan(c, "deb")
	if err != nil {
		return false
	}
	pk := map[string]bool{}
	n := 0
	for _, e := range plan {
		if !e.Implied {
			n++
			pk[e.Kind] = true
		}
	}
	return n >= 3 && len(pk) >= 2 && len(kinds) > 0
}

var c01Opts = contentOpts{maxEntries: 8, rpmOnlyTypes: true, packagerTags: true, weirdNames: true, spellings: true, trees: true}

func TestC01(t *testing.T) {
	st := newStats("C01")
	defer st.Flush()
	var rc BuildCase
	if replayCase(&rc) {
		st.Record(&rc, true, "replay")
		if rc.ManyFilesProbe {
			st.Report(t, &rc, checkManyFiles(&rc))
			return
		}
		if rc.TreeOwnerProbe {
			st.Report(t, &rc, checkTreeOwner(&rc))
			return
		}
		st.Report(t, &rc, checkC01(&rc))
		return
	}
	manyFilesProbe(t, st)
	treeOwnerProbe(t, st)
	rapid.Check(t, func(rt *rapid.T) {
		c := genBuildCase(rt, c01Opts)
		c.Again = rapid.IntRange(0, 3).Draw(rt, "again") == 0
		labels, _, _ := classifyBuildCase(c)
		if c.Again {
			labels = append(labels, "packaged-again-under-other-umask")
		}
		st.Record(c, nontrivialC01(c), labels...)
		st.Report(rt, c, checkC01(c))
	})
}
