package props

import (
	"bytes"
	"crypto"
	"crypto/rsa"
	"crypto/sha1"
	"crypto/x509"
	"encoding/pem"
	"errors"
	"fmt"
	"io"
	"io/fs"
	"os"
	"os/exec"
	"path/filepath"
	"strconv"
	"strings"
	"testing"
	"time"

	"github.com/ProtonMail/go-crypto/openpgp"
	"github.com/ProtonMail/go-crypto/openpgp/armor"
	"github.com/ProtonMail/go-crypto/openpgp/clearsign"
	"github.com/ProtonMail/go-crypto/openpgp/packet"
	"github.com/goreleaser/nfpm/v2"
	"pgregory.net/rapid"
)

const keyPassphrase = "verif-passphrase"

func keysDir() string {
	if d := os.Getenv("VERIF_KEYS"); d != "" {
		return d
	}
	return filepath.Join(verifDir(), "harness", "testdata", "keys")
}

var errCallback = errors.New("sentinel: signing callback refused")

type SignCase struct {
	Case       *BuildCase `json:"case"`
	Format     string     `json:"format"`
	Key        string     `json:"key"`              // base name under testdata/keys
	KeyEnc     string     `json:"key_enc"`          // pgp: asc|gpg   rsa: pkcs1|pkcs8|pkcs1.enc
	KeyID      string     `json:"key_id,omitempty"` // "" | primary | subkey
	Callback   bool       `json:"callback,omitempty"`
	DebMethod  string     `json:"deb_method,omitempty"`
	DebType    string     `json:"deb_type,omitempty"`
	APKKeyName string     `json:"apk_key_name,omitempty"`
	Fault      string     `json:"fault,omitempty"`
	EdgeSig    bool       `json:"edge_sig,omitempty"` // rpm callback: return a signature whose last byte is an ASCII blank
	Rotate     bool       `json:"rotate,omitempty"`   // key file: the configured path held another key during an earlier signed build in this process
	returned   [][]byte
	keyPath    string // overrides keyFile() when set
}

// rotationPartner names another key of the same kind and the same protection (same passphrase) as sc.Key.
func (sc *SignCase) rotationPartner() string {
	switch {
	case strings.HasPrefix(sc.Key, "pgp-primary"):
		return strings.Replace(sc.Key, "pgp-primary", "pgp-subkey", 1)
	case strings.HasPrefix(sc.Key, "pgp-subkey"):
		return strings.Replace(sc.Key, "pgp-subkey", "pgp-primary", 1)
	case sc.Key == "rsa-a":
		return "rsa-b"
	default:
		return "rsa-a"
	}
}

func copyFileTo(src, dst string) {
	b, err := os.ReadFile(src)
	if err != nil {
		panic(err)
	}
	if err := os.WriteFile(dst, b, 0o600); err != nil {
		panic(err)
	}
}

func (sc *SignCase) protected() bool {
	return strings.Contains(sc.Key, "protected") || sc.KeyEnc == "pkcs1.enc"
}

func (sc *SignCase) keyFile() string {
	if sc.keyPath != "" {
		return sc.keyPath
	}
	if sc.Format == "apk" {
		return filepath.Join(keysDir(), sc.Key+"."+sc.KeyEnc+".pem")
	}
	return filepath.Join(keysDir(), sc.Key+".sec."+sc.KeyEnc)
}

func readIDs(key string) map[string]string {
	out := map[string]string{}
	b, err := os.ReadFile(filepath.Join(keysDir(), key+".ids"))
	if err != nil {
		return out
	}
	for _, l := range strings.Split(string(b), "\n") {
		if i := strings.IndexByte(l, '='); i > 0 {
			out[l[:i]] = l[i+1:]
		}
	}
	return out
}

func (sc *SignCase) keyIDHex() string {
	ids := readIDs(sc.Key)
	switch sc.KeyID {
	case "primary":
		return ids["primary"]
	case "subkey":
		return ids["signing-subkey"]
	}
	return ""
}

func pubRing(key string) openpgp.EntityList {
	f, err := os.Open(filepath.Join(keysDir(), key+".pub.asc"))
	if err != nil {
		panic(err)
	}
	defer f.Close()
	el, err := openpgp.ReadArmoredKeyRing(f)
	if err != nil {
		panic(err)
	}
	return el
}

func rsaPub(key string) *rsa.PublicKey {
	b, err := os.ReadFile(filepath.Join(keysDir(), key+".pub.pem"))
	if err != nil {
		panic(err)
	}
	blk, _ := pem.Decode(b)
	k, err := x509.ParsePKIXPublicKey(blk.Bytes)
	if err != nil {
		panic(err)
	}
	return k.(*rsa.PublicKey)
}

// config builds the parsed configuration with the signature settings of the case.
func (sc *SignCase) config(root string, captured *[][]byte) (*nfpm.Config, error) {
	c := cloneCase(sc.Case)
	sig := map[string]any{}
	kf := sc.keyFile()
	if sc.Fault == "missing-key-file" {
		kf = filepath.Join(root, "no-such-key-file")
	}
	if sc.Fault == "non-rsa-key" {
		kf = filepath.Join(keysDir(), "ecdsa-p256.pkcs8.pem") // apk signatures are RSA: an ECDSA key cannot make one
	}
	if !sc.Callback {
		sig["key_file"] = kf
	}
	if id := sc.keyIDHex(); id != "" {
		sig["key_id"] = id
	}
	if sc.Fault == "bad-key-id" {
		sig["key_id"] = "not-hex!"
	}
	if sc.Fault == "unknown-key-id" {
		sig["key_id"] = "0123456789abcdef" // well formed, but no key of the key file has it
	}
	block := map[string]any{"signature": sig}
	switch sc.Format {
	case "deb":
		if sc.DebMethod != "" {
			sig["method"] = sc.DebMethod
		}
		if sc.DebType != "" {
			sig["type"] = sc.DebType
		}
		if sc.Fault == "invalid-type" {
			sig["type"] = "owner"
		}
	case "apk":
		if sc.APKKeyName != "" {
			sig["key_name"] = sc.APKKeyName
		}
	}
	c.Extra = map[string]any{}
	for k, v := range sc.Case.Extra {
		c.Extra[k] = v
	}
	// merge into an existing format block rendered from X/compression by ConfigMap: use Extra for the signature only
	c.Extra[sc.Format] = block
	env := map[string]string{}
	if sc.protected() && sc.Fault != "missing-passphrase" {
		env["NFPM_PASSPHRASE"] = keyPassphrase
		if sc.Fault == "wrong-passphrase" {
			env["NFPM_PASSPHRASE"] = "not the passphrase"
		}
	}
	cfg, err := nfpm.ParseWithEnvMapping(bytes.NewReader(c.YAMLFor(root, sc.Format)), mapping(env))
	if err != nil {
		return nil, err
	}
	if sc.Callback {
		fn := sc.callback(captured)
		switch sc.Format {
		case "deb":
			cfg.Deb.Signature.SignFn = fn
		case "rpm":
			cfg.RPM.Signature.SignFn = fn
		case "apk":
			cfg.APK.Signature.SignFn = fn
		}
	}
	return &cfg, nil
}

// callback signs with the harness' own code (never nfpm's) after recording the bytes it was handed.
func (sc *SignCase) callback(captured *[][]byte) func(io.Reader) ([]byte, error) {
	return func(r io.Reader) ([]byte, error) {
		data, err := io.ReadAll(r)
		if err != nil {
			return nil, err
		}
		*captured = append(*captured, data)
		if sc.Fault == "callback-error" {
			return nil, errCallback
		}
		if sc.Format == "apk" {
			b, _ := os.ReadFile(filepath.Join(keysDir(), sc.Key+".pkcs1.pem"))
			blk, _ := pem.Decode(b)
			k, err := x509.ParsePKCS1PrivateKey(blk.Bytes)
			if err != nil {
				return nil, err
			}
			return rsa.SignPKCS1v15(nil, k, crypto.SHA1, data)
		}
		f, err := os.Open(filepath.Join(keysDir(), strings.TrimSuffix(sc.Key, "-protected")+".sec.asc"))
		if err != nil {
			return nil, err
		}
		defer f.Close()
		el, err := openpgp.ReadArmoredKeyRing(f)
		if err != nil {
			return nil, err
		}
		var out bytes.Buffer
		switch {
		case sc.Format == "deb" && sc.DebMethod == "dpkg-sig":
			w, err := clearsign.Encode(&out, el[0].PrivateKey, &packet.Config{DefaultHash: crypto.SHA256})
			if err != nil {
				return nil, err
			}
			_, _ = w.Write(data)
			_ = w.Close()
		case sc.Format == "deb":
			err = openpgp.ArmoredDetachSign(&out, el[0], bytes.NewReader(data), &packet.Config{DefaultHash: crypto.SHA256})
		default:
			err = openpgp.DetachSign(&out, el[0], bytes.NewReader(data), &packet.Config{DefaultHash: crypto.SHA256})
			if err == nil && sc.EdgeSig {
				// a binary signature is opaque bytes: look for one whose last byte is an ASCII blank by moving the
				// creation time back second by second (about one signature in forty ends that way)
				base := time.Now()
				for k := 1; k < 400 && !isBlank(out.Bytes()[out.Len()-1]); k++ {
					out.Reset()
					tm := base.Add(-time.Duration(k) * time.Second)
					err = openpgp.DetachSign(&out, el[0], bytes.NewReader(data), &packet.Config{DefaultHash: crypto.SHA256, Time: func() time.Time { return tm }})
					if err != nil {
						break
					}
				}
			}
		}
		if err == nil {
			sc.returned = append(sc.returned, append([]byte(nil), out.Bytes()...))
		}
		return out.Bytes(), err
	}
}

func isBlank(c byte) bool { return c == ' ' || (c >= '\t' && c <= '\r') }

// clearNorm: the cleartext signature framework drops trailing blanks of every line and normalises line ends.
func clearNorm(b []byte) string {
	lines := strings.Split(strings.ReplaceAll(string(b), "\r\n", "\n"), "\n")
	for i := range lines {
		lines[i] = strings.TrimRight(lines[i], " \t\r")
	}
	return strings.TrimSpace(strings.Join(lines, "\n"))
}

// checkDetached verifies a detached OpenPGP signature in either encoding, ASCII-armored or binary packets: the
// property asks for a detached signature, not for an encoding (gpg --verify and debsig-verify read both).
func checkDetached(ring openpgp.EntityList, signed, sig []byte) error {
	if bytes.HasPrefix(bytes.TrimSpace(sig), []byte("-----BEGIN")) {
		_, err := openpgp.CheckArmoredDetachedSignature(ring, bytes.NewReader(signed), bytes.NewReader(sig), nil)
		return err
	}
	_, err := openpgp.CheckDetachedSignature(ring, bytes.NewReader(signed), bytes.NewReader(sig), nil)
	return err
}

func issuerOf(sig []byte) (uint64, error) {
	r := io.Reader(bytes.NewReader(sig))
	if bytes.HasPrefix(bytes.TrimSpace(sig), []byte("-----BEGIN")) {
		blk, err := armor.Decode(bytes.NewReader(sig))
		if err != nil {
			return 0, err
		}
		r = blk.Body
	}
	p, err := packet.Read(r)
	if err != nil {
		return 0, err
	}
	s, ok := p.(*packet.Signature)
	if !ok || s.IssuerKeyId == nil {
		return 0, fmt.Errorf("not a signature packet with issuer")
	}
	return *s.IssuerKeyId, nil
}

func (sc *SignCase) checkIssuer(f string, sig []byte, vs *vlist) {
	if sc.Callback {
		return
	}
	ids := readIDs(sc.Key)
	want := ids["primary"]
	if ids["signing-subkey"] != "" {
		want = ids["signing-subkey"] // documented: without key_id the first signing subkey is selected
	}
	if id := sc.keyIDHex(); id != "" {
		want = id
	}
	got, err := issuerOf(sig)
	if err != nil {
		vs.add("C10.signature-unreadable", f, "%v", err)
		return
	}
	w, _ := strconv.ParseUint(want, 16, 64)
	if got != w {
		vs.add("C10.wrong-signing-key", f, "signature issued by key %016x, expected %016x (key_id %q)", got, w, sc.KeyID)
	}
}

var haveGPG = func() bool { _, err := exec.LookPath("gpg"); return err == nil }()

// gpgVerify is the second opinion: gpg --verify in a private GNUPGHOME.
func gpgVerify(key string, sig, data []byte) (bool, string) {
	dir, err := os.MkdirTemp(scratchBase(), "gpg")
	if err != nil {
		return true, ""
	}
	defer os.RemoveAll(dir)
	_ = os.Chmod(dir, 0o700)
	env := append(os.Environ(), "GNUPGHOME="+dir)
	imp := exec.Command("gpg", "--batch", "--quiet", "--import", filepath.Join(keysDir(), key+".pub.asc"))
	imp.Env = env
	if out, err := imp.CombinedOutput(); err != nil {
		return true, "gpg import failed: " + string(out) // tool trouble is not a verdict
	}
	sp, dp := filepath.Join(dir, "sig"), filepath.Join(dir, "data")
	_ = os.WriteFile(sp, sig, 0o600)
	_ = os.WriteFile(dp, data, 0o600)
	v := exec.Command("gpg", "--batch", "--status-fd", "1", "--verify", sp, dp)
	v.Env = env
	out, _ := v.CombinedOutput()
	return strings.Contains(string(out), "GOODSIG") || strings.Contains(string(out), "VALIDSIG"), string(out)
}

// gpgVerifyClearsigned: gpg --verify on a clear-signed block (what dpkg-sig itself runs).
func gpgVerifyClearsigned(key string, block []byte) (bool, string) {
	dir, err := os.MkdirTemp(scratchBase(), "gpg")
	if err != nil {
		return true, ""
	}
	defer os.RemoveAll(dir)
	_ = os.Chmod(dir, 0o700)
	env := append(os.Environ(), "GNUPGHOME="+dir)
	imp := exec.Command("gpg", "--batch", "--quiet", "--import", filepath.Join(keysDir(), key+".pub.asc"))
	imp.Env = env
	if out, err := imp.CombinedOutput(); err != nil {
		return true, "gpg import failed: " + string(out)
	}
	bp := filepath.Join(dir, "block.asc")
	_ = os.WriteFile(bp, block, 0o600)
	v := exec.Command("gpg", "--batch", "--status-fd", "1", "--verify", bp)
	v.Env = env
	out, _ := v.CombinedOutput()
	return strings.Contains(string(out), "GOODSIG") || strings.Contains(string(out), "VALIDSIG"), string(out)
}

func checkSign(sc *SignCase, useGPG bool) []Violation {
	var vs vlist
	f := sc.Format
	key := strings.TrimSuffix(sc.Key, "")
	err := sc.Case.withRoot(func(root string) error {
		var captured [][]byte
		if sc.Rotate && !sc.Callback && sc.Fault == "" {
			// history: the configured key path held ANOTHER key (same kind, same passphrase) when a package was signed
			// earlier in this process; the key was then replaced at that path. The checked build must sign with the key
			// that is at the path now.
			stable := filepath.Join(root, "signing-key-at-a-fixed-path")
			pre := *sc
			pre.Key, pre.KeyID, pre.Rotate, pre.keyPath = sc.rotationPartner(), "", false, ""
			copyFileTo(pre.keyFile(), stable)
			pre.keyPath = stable
			if pcfg, err := pre.config(root, nil); err == nil {
				_ = packageInto(pcfg, f, io.Discard)
			}
			copyFileTo(sc.keyFile(), stable)
			sc.keyPath = stable
			defer func() { sc.keyPath = "" }()
		}
		cfg, err := sc.config(root, &captured)
		if err != nil {
			vs.add("C10.config-rejected", f, "%v", err)
			return nil
		}
		var buf bytes.Buffer
		perr := packageInto(cfg, f, &buf)
		if sc.Fault != "" {
			if perr == nil {
				vs.add("C10.fault.package-succeeds", f, "%s: Package reported success (%d bytes)", sc.Fault, buf.Len())
				return nil
			}
			var sf *nfpm.ErrSigningFailure
			if !errors.As(perr, &sf) {
				vs.add("C10.fault.not-a-signing-failure", f, "%s: error %q is not identifiable as *nfpm.ErrSigningFailure", sc.Fault, perr)
			}
			switch sc.Fault {
			case "callback-error":
				if !errors.Is(perr, errCallback) {
					vs.add("C10.fault.signer-error-unreachable", f, "%s: the callback's own error is not reachable through errors.Is: %q", sc.Fault, perr)
				}
			case "missing-key-file":
				if !errors.Is(perr, fs.ErrNotExist) {
					vs.add("C10.fault.signer-error-unreachable", f, "%s: the signer's own error (file does not exist) is not reachable through errors.Is: %q", sc.Fault, perr)
				}
			}
			return nil
		}
		if perr != nil {
			vs.add("C10.package-error", f, "signing configured correctly, yet Package failed: %v", perr)
			return nil
		}
		d, err := Decode(f, buf.Bytes())
		if d == nil {
			vs.add("C10.decode", f, "%v", err)
			return nil
		}
		switch f {
		case "deb":
			if d.SigMember == nil {
				vs.add("C10.deb.no-signature-member", f, "no _gpg* member")
				return nil
			}
			signed := append(append(append([]byte{}, d.Ar[0].Data...), d.Ar[1].Data...), d.Ar[2].Data...)
			if sc.DebMethod == "dpkg-sig" {
				wantName := "_gpgbuilder"
				if sc.DebType != "" {
					wantName = "_gpg" + sc.DebType
				}
				if d.SigMember.Name != wantName {
					vs.add("C10.deb.signature-member-name", f, "signature member %q, expected %q", d.SigMember.Name, wantName)
				}
				blk, _ := clearsign.Decode(d.SigMember.Data)
				if blk == nil {
					vs.add("C10.dpkg-sig.not-clearsigned", f, "member is not a clear-signed block")
					return nil
				}
				if _, err := blk.VerifySignature(pubRing(key), nil); err != nil {
					vs.add("C10.dpkg-sig.signature-invalid", f, "clear-signed manifest does not verify: %v", err)
				}
				if blk2, _ := clearsign.Decode(d.SigMember.Data); blk2 != nil && blk2.ArmoredSignature != nil {
					// the documented key selection (key_id, else the first signing subkey) holds for either method
					if sigBytes, err := io.ReadAll(blk2.ArmoredSignature.Body); err == nil {
						sc.checkIssuer(f, sigBytes, &vs)
					}
				}
				if len(captured) > 0 && clearNorm(captured[0]) != clearNorm(blk.Plaintext) {
					vs.add("C10.callback.bytes", f, "the callback was handed %d bytes that are not the manifest that was stored", len(captured[0]))
				}
				members := map[string]ArMember{}
				for _, m := range d.Ar[:3] {
					members[m.Name] = m
				}
				n := 0
				for _, l := range strings.Split(string(blk.Plaintext), "\n") {
					fs := strings.Fields(l)
					if len(fs) != 4 || len(fs[0]) != 32 || len(fs[1]) != 40 {
						continue
					}
					n++
					m, ok := members[fs[3]]
					if !ok {
						vs.add("C10.dpkg-sig.manifest-name", f, "manifest lists %q, stored members are %s, %s, %s", fs[3], d.Ar[0].Name, d.Ar[1].Name, d.Ar[2].Name)
						continue
					}
					if fs[0] != md5hex(m.Data) || fs[1] != sha1hex(m.Data) || fs[2] != strconv.Itoa(len(m.Data)) {
						vs.add("C10.dpkg-sig.manifest-digest", f, "manifest line for %s does not match the stored member", fs[3])
					}
				}
				if n != 3 {
					vs.add("C10.dpkg-sig.manifest-lines", f, "manifest has %d file lines, expected 3", n)
				}
				if useGPG && haveGPG && !sc.Callback {
					if ok, out := gpgVerifyClearsigned(key, d.SigMember.Data); !ok {
						vs.add("C10.dpkg-sig.gpg-rejects", f, "gpg --verify rejects the clear-signed manifest: %s", out)
					}
				}
				return nil
			}
			wantName := "_gpgorigin"
			if sc.DebType != "" {
				wantName = "_gpg" + sc.DebType
			}
			if d.SigMember.Name != wantName {
				vs.add("C10.deb.signature-member-name", f, "signature member %q, expected %q", d.SigMember.Name, wantName)
			}
			if err := checkDetached(pubRing(key), signed, d.SigMember.Data); err != nil {
				vs.add("C10.deb.signature-invalid", f, "%s does not verify over debian-binary+control+data as stored: %v", d.SigMember.Name, err)
			}
			sc.checkIssuer(f, d.SigMember.Data, &vs)
			if len(sc.returned) == 1 && !bytes.Equal(sc.returned[0], d.SigMember.Data) {
				vs.add("C10.callback.signature-not-verbatim", f, "the signature the callback returned (%d bytes) is not what the package stores (%d bytes)", len(sc.returned[0]), len(d.SigMember.Data))
			}
			if len(captured) > 0 && !bytes.Equal(captured[0], signed) {
				vs.add("C10.callback.bytes", f, "the callback was handed %d bytes, the stored members concatenate to %d", len(captured[0]), len(signed))
			}
			if useGPG && haveGPG {
				if ok, out := gpgVerify(key, d.SigMember.Data, signed); !ok {
					vs.add("C10.deb.gpg-rejects", f, "gpg --verify rejects the signature: %s", out)
				}
			}
		case "rpm":
			r := d.RPM
			hs, ok1 := r.Sig.Bin(268)
			ps, ok2 := r.Sig.Bin(1002)
			if !ok1 || !ok2 {
				vs.add("C10.rpm.signature-tags-missing", f, "RSAHEADER present=%v, PGP present=%v", ok1, ok2)
				return nil
			}
			if _, err := openpgp.CheckDetachedSignature(pubRing(key), bytes.NewReader(r.Hdr.Raw), bytes.NewReader(hs), nil); err != nil {
				vs.add("C10.rpm.header-signature-invalid", f, "RSAHEADER does not verify over the header as shipped: %v", err)
			}
			body := append(append([]byte{}, r.Hdr.Raw...), r.Payload...)
			if _, err := openpgp.CheckDetachedSignature(pubRing(key), bytes.NewReader(body), bytes.NewReader(ps), nil); err != nil {
				vs.add("C10.rpm.payload-signature-invalid", f, "PGP does not verify over header+payload as shipped: %v", err)
			}
			sc.checkIssuer(f, hs, &vs)
			if len(sc.returned) == 2 && (!bytes.Equal(sc.returned[0], hs) || !bytes.Equal(sc.returned[1], ps)) {
				vs.add("C10.callback.signature-not-verbatim", f, "the signatures the callback returned (%d and %d bytes, last bytes %#x %#x) are not what the package stores (%d and %d bytes)",
					len(sc.returned[0]), len(sc.returned[1]), sc.returned[0][len(sc.returned[0])-1], sc.returned[1][len(sc.returned[1])-1], len(hs), len(ps))
			}
			if len(captured) > 0 {
				if len(captured) != 2 || !bytes.Equal(captured[0], r.Hdr.Raw) || !bytes.Equal(captured[1], body) {
					vs.add("C10.callback.bytes", f, "the callback was called %d times; it must receive the header and then header+payload as shipped", len(captured))
				}
			}
			if useGPG && haveGPG {
				if ok, out := gpgVerify(key, ps, body); !ok {
					vs.add("C10.rpm.gpg-rejects", f, "gpg --verify rejects the header+payload signature: %s", out)
				}
			}
		case "apk":
			if len(d.ApkSig) == 0 {
				vs.add("C10.apk.no-signature-segment", f, "package has no signature segment")
				return nil
			}
			wantName := sc.APKKeyName
			if wantName == "" {
				wantName = "verif@example.com"
			}
			if !strings.HasSuffix(wantName, ".rsa.pub") {
				wantName += ".rsa.pub"
			}
			if d.ApkSig[0].Name != ".SIGN.RSA."+wantName {
				vs.add("C10.apk.signature-name", f, "first entry is %q, expected %q", d.ApkSig[0].Name, ".SIGN.RSA."+wantName)
			}
			digest := sha1.Sum(d.ApkCtlRaw)
			if err := rsa.VerifyPKCS1v15(rsaPub(key), crypto.SHA1, digest[:], d.ApkSig[0].Data); err != nil {
				vs.add("C10.apk.signature-invalid", f, "signature does not verify over the SHA-1 of the control segment as shipped: %v", err)
			}
			if len(captured) > 0 && !bytes.Equal(captured[0], digest[:]) {
				vs.add("C10.callback.bytes", f, "the callback was handed %x, the control segment as shipped hashes to %x", captured[0], digest)
			}
		}
		return nil
	})
	if err != nil {
		panic(err)
	}
	return vs
}

func genSignCase(t *rapid.T) *SignCase {
	o := c01Opts
	o.maxEntries = 4
	c := genBuildCase(t, o)
	for i := range c.Tree {
		if c.Tree[i].Size > 20000 {
			c.Tree[i].Size %= 20000
		}
	}
	if c.RPMCompression == "xz" || c.RPMCompression == "lzma" {
		c.RPMCompression = "zstd"
	}
	c.Meta.Maintainer = "Verif Harness <verif@example.com>"
	c.MTime = genMTime(t, "pkgmtime2")
	sc := &SignCase{Case: c, Format: rapid.SampledFrom([]string{"deb", "deb", "rpm", "apk"}).Draw(t, "format")}
	c.Formats = []string{sc.Format}
	sc.Callback = rapid.IntRange(0, 3).Draw(t, "callback") == 0
	if sc.Format == "apk" {
		sc.Key = rapid.SampledFrom([]string{"rsa-a", "rsa-b", "rsa-4096"}).Draw(t, "key")
		sc.KeyEnc = rapid.SampledFrom([]string{"pkcs1", "pkcs8", "pkcs1.enc"}).Draw(t, "enc")
		if rapid.Bool().Draw(t, "keyname?") {
			sc.APKKeyName = rapid.SampledFrom([]string{"origin", "alpine-devel@lists.alpinelinux.org-4a6a0840.rsa.pub", "my key"}).Draw(t, "keyname")
		}
	} else {
		sc.Key = rapid.SampledFrom([]string{"pgp-primary", "pgp-primary-protected", "pgp-subkey", "pgp-subkey-protected"}).Draw(t, "key")
		sc.KeyEnc = rapid.SampledFrom([]string{"asc", "gpg"}).Draw(t, "enc")
		if rapid.Bool().Draw(t, "keyid?") {
			sc.KeyID = "primary"
			if strings.Contains(sc.Key, "subkey") && rapid.Bool().Draw(t, "keyid.sub") {
				sc.KeyID = "subkey"
			}
		}
	}
	if sc.Callback && sc.Format == "rpm" {
		sc.EdgeSig = rapid.Bool().Draw(t, "edgesig")
	}
	sc.Rotate = !sc.Callback && rapid.Bool().Draw(t, "rotate")
	if sc.Callback {
		sc.KeyID = ""
		sc.Key = strings.TrimSuffix(sc.Key, "-protected") // the harness callback signs with the unprotected entity of that name
		if sc.Format == "apk" {
			sc.KeyEnc = "pkcs1"
		}
	}
	if sc.Format == "deb" {
		sc.DebMethod = rapid.SampledFrom([]string{"", "debsign", "dpkg-sig"}).Draw(t, "method")
		sc.DebType = rapid.SampledFrom([]string{"", "origin", "maint", "archive"}).Draw(t, "type")
	}
	if rapid.IntRange(0, 3).Draw(t, "fault?") == 0 {
		var faults []string
		if sc.Callback {
			faults = []string{"callback-error"}
		} else {
			faults = []string{"missing-key-file"}
			if sc.Format == "apk" && !sc.protected() {
				faults = append(faults, "non-rsa-key")
			}
			if sc.protected() {
				faults = append(faults, "wrong-passphrase", "missing-passphrase")
			}
			if sc.Format != "apk" {
				faults = append(faults, "bad-key-id", "unknown-key-id")
			}
		}
		if sc.Format == "deb" && sc.DebMethod != "dpkg-sig" {
			faults = append(faults, "invalid-type")
		}
		sc.Fault = rapid.SampledFrom(faults).Draw(t, "fault")
	}
	return sc
}

func TestC10(t *testing.T) {
	st := newStats("C10")
	defer st.Flush()
	st.Tools["gpg"] = fmt.Sprint(haveGPG)
	var rc SignCase
	if replayCase(&rc) {
		st.Record(&rc, true, "replay")
		st.Report(t, &rc, checkSign(&rc, true))
		return
	}
	i := 0
	rapid.Check(t, func(rt *rapid.T) {
		sc := genSignCase(rt)
		i++
		useGPG := thorough() || i%8 == 0
		labels := []string{"format:" + sc.Format, "key:" + sc.Key, "enc:" + sc.KeyEnc}
		if sc.Callback {
			labels = append(labels, "callback")
		}
		if sc.Fault != "" {
			labels = append(labels, "fault:"+sc.Fault)
		}
		if sc.Format == "deb" {
			labels = append(labels, "method:"+sc.DebMethod, "debcomp:"+sc.Case.DebCompression)
		}
		if useGPG && haveGPG && sc.Fault == "" && sc.Format != "apk" {
			labels = append(labels, "gpg-consulted")
		}
		st.Record(sc, true, labels...)
		st.Report(rt, sc, checkSign(sc, useGPG))
	})
}
