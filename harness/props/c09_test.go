package props

import (
	"archive/tar"
	"bytes"
	"fmt"
	"path"
	"regexp"
	"sort"
	"strings"
	"testing"

	"pgregory.net/rapid"
)

var rpmScriptTags = map[string]uint32{"PREIN": 1023, "POSTIN": 1024, "PREUN": 1025, "POSTUN": 1026, "PRETRANS": 1151, "POSTTRANS": 1152, "VERIFYSCRIPT": 1079}

var archFuncHeader = regexp.MustCompile(`(?m)^(?:function[ \t]+)?((?:pre|post)_(?:install|upgrade|remove))[ \t]*\(\)[ \t]*\{[ \t]*\n`)

// parseInstall splits an archlinux .INSTALL into function name -> body. A body is
// the text between the line opening the function and the last line consisting of
// "}" before the next function header (or the end of the file).
func parseInstall(s string) (map[string]string, error) {
	out := map[string]string{}
	locs := archFuncHeader.FindAllStringSubmatchIndex(s, -1)
	for i, l := range locs {
		name := s[l[2]:l[3]]
		end := len(s)
		if i+1 < len(locs) {
			end = locs[i+1][0]
		}
		seg := s[l[1]:end]
		j := strings.LastIndex(seg, "\n}")
		if j < 0 {
			return out, fmt.Errorf(".INSTALL: function %s has no closing brace line", name)
		}
		if rest := stripShellComments(seg[j+2:]); rest != "" {
			return out, fmt.Errorf(".INSTALL: junk after function %s: %q", name, rest)
		}
		if _, dup := out[name]; dup {
			return out, fmt.Errorf(".INSTALL: function %s defined twice", name)
		}
		out[name] = seg[:j]
	}
	if len(locs) > 0 && stripShellComments(s[:locs[0][0]]) != "" {
		return out, fmt.Errorf(".INSTALL: junk before first function: %q", s[:locs[0][0]])
	}
	return out, nil
}

// stripShellComments removes blank lines and whole-line comments: outside the functions they define nothing.
func stripShellComments(s string) string {
	var keep []string
	for _, l := range strings.Split(s, "\n") {
		if t := strings.TrimSpace(l); t != "" && !strings.HasPrefix(t, "#") {
			keep = append(keep, t)
		}
	}
	return strings.Join(keep, "\n")
}

// slotContents extracts slot name -> bytes (and member mode where there is one) from a decoded package.
func slotContents(f string, d *Decoded) (map[string][]byte, map[string]int64, error) {
	got := map[string][]byte{}
	modes := map[string]int64{}
	switch f {
	case "deb", "ipk":
		for _, e := range d.ControlTar {
			if e.Typeflag == tar.TypeDir {
				continue // a "./" entry, as dpkg-deb --build writes one, is not a slot
			}
			n := strings.TrimPrefix(absOf(e.Name), "/")
			switch n {
			case "control", "md5sums", "conffiles", "triggers":
				continue
			}
			got[n] = e.Data
			modes[n] = e.Mode
		}
	case "apk":
		for _, e := range d.ControlTar {
			if e.Name == ".PKGINFO" {
				continue
			}
			got[e.Name] = e.Data
			modes[e.Name] = e.Mode
		}
	case "rpm":
		for name, tag := range rpmScriptTags {
			if d.RPM.Hdr.Has(tag) {
				s, ok := d.RPM.Hdr.String(tag)
				if !ok {
					return nil, nil, fmt.Errorf("rpm: scriptlet tag %s is not a single string", name)
				}
				got[name] = []byte(s)
			}
		}
	case "archlinux":
		if d.HasInst {
			fs, err := parseInstall(d.Install)
			if err != nil {
				return nil, nil, err
			}
			for k, v := range fs {
				got[k] = []byte(v)
			}
		}
	}
	return got, modes, nil
}

func checkC09Format(c *BuildCase, f string, d *Decoded, vs *vlist) {
	got, modes, err := slotContents(f, d)
	if err != nil {
		vs.add("C09.slots-unreadable", f, "%v", err)
		return
	}
	ti := indexTree(c.Tree)
	want := map[string][]byte{}
	for slot, inner := range slotsOf(f) {
		if rel, ok := c.Scripts[slot]; ok {
			want[inner] = scriptBytes(ti, rel)
		}
	}
	for inner, w := range want {
		if f == "rpm" && bytes.IndexByte(w, 0) >= 0 {
			delete(got, inner)
			continue // outside the domain of rpm scriptlets
		}
		g, ok := got[inner]
		if !ok {
			if f == "rpm" && len(w) == 0 {
				continue // an empty scriptlet and no scriptlet are the same thing in rpm
			}
			vs.add("C09.slot-missing", f, "slot %s is configured but absent from the package", inner)
			continue
		}
		if !bytes.Equal(g, w) {
			// does it carry another slot's bytes?
			for other, ow := range want {
				if other != inner && bytes.Equal(g, ow) && len(ow) > 0 {
					vs.add("C09.slot-swapped", f, "slot %s carries the script configured for %s", inner, other)
				}
			}
			vs.add("C09.slot-bytes", f, "slot %s: %d bytes %q..., configured script has %d bytes %q...", inner, len(g), clip(g), len(w), clip(w))
		}
		if f == "deb" || f == "ipk" {
			wm := int64(0o755)
			if inner == "templates" {
				wm = 0o644
			}
			if modes[inner] != wm {
				vs.add("C09.slot-mode", f, "control member %s has mode %04o, expected %04o", inner, modes[inner], wm)
			}
		}
		if f == "apk" && modes[inner] != 0o755 {
			vs.add("C09.slot-mode", f, "control member %s has mode %04o, expected 0755", inner, modes[inner])
		}
	}
	var extra []string
	for inner := range got {
		if _, ok := want[inner]; !ok {
			extra = append(extra, inner)
		}
	}
	sort.Strings(extra)
	for _, inner := range extra {
		vs.add("C09.slot-unconfigured", f, "slot %s is populated (%d bytes) but no script is configured for it", inner, len(got[inner]))
	}
	if f == "archlinux" {
		if d.HasInst != (len(want) > 0) {
			vs.add("C09.install-iff-scripts", f, ".INSTALL present=%v with %d scripts configured", d.HasInst, len(want))
		}
	}
}

// scriptBytes returns the bytes a reader of the configured script path sees: the file's own, or, when the path is a
// symbolic link (scripts kept in a shared directory and linked per package are common), those of the file it points to.
func scriptBytes(ti *treeIndex, rel string) []byte {
	n := ti.byRel[rel]
	for hops := 0; n != nil && n.Kind == "symlink" && hops < 4; hops++ {
		n = ti.byRel[path.Clean(pathDir(n.Rel)+"/"+n.Target)]
	}
	if n == nil {
		panic("script path " + rel + " does not resolve inside the generated tree")
	}
	return n.Content()
}

func clip(b []byte) []byte {
	if len(b) > 40 {
		return b[:40]
	}
	return b
}

func checkC09(c *BuildCase) []Violation {
	var vs vlist
	err := c.withRoot(func(root string) error {
		b := buildAll(c, root, "C09", &vs)
		for _, f := range c.formats() {
			if d := b.decoded[f]; d != nil {
				checkC09Format(c, f, d, &vs)
			}
		}
		return nil
	})
	if err != nil {
		panic(err)
	}
	return vs
}

func scriptBaseCase() *BuildCase {
	return &BuildCase{
		Meta:         Meta{Name: "scr", Arch: "amd64", Version: "1.0.0", Maintainer: "V <v@example.com>", Description: "scripts"},
		MTime:        1000000000,
		RPMBuildHost: "h",
		Tree:         []FNode{{Rel: "src/f", Kind: "file", Size: 10, Seed: 1, Mode: 0o644, MTime: 900000000}},
		Contents:     []Entry{{Src: "src/f", Dst: "/usr/share/scr/f", Form: "single"}},
	}
}

func genScriptBytes(t *rapid.T, label string) string {
	switch rapid.IntRange(0, 9).Draw(t, label+".class") {
	case 9:
		// one very long line (an embedded base64 payload): longer than the 64 KiB default of line-oriented readers
		n := rapid.SampledFrom([]int{4095, 4096, 65535, 65536, 65537, 70000, 150000}).Draw(t, label+".linelen")
		return "#!/bin/sh\nPAYLOAD=" + strings.Repeat("Q", n) + "\necho " + label + " done\n"
	case 8:
		// every byte value including NUL (compared in every format but rpm, whose scriptlets are C strings)
		return string(rapid.SliceOfN(rapid.Byte(), 1, 120).Draw(t, label+".bin0")) + "\x00tail"

	case 0:
		return "" // empty
	case 1:
		return "#!/bin/sh\necho " + label // no trailing newline
	case 2:
		// arbitrary non-NUL bytes
		b := rapid.SliceOfN(rapid.ByteRange(1, 255), 1, 200).Draw(t, label+".bin")
		return string(b)
	case 3:
		return strings.Repeat("# "+label+" padding line\n", rapid.IntRange(1000, 6000).Draw(t, label+".reps"))
	case 4:
		return "#!/bin/sh\nif true; then\n  { echo a; }\nfi\n}\n\n# " + label + "\n" // lone closing braces inside the body
	case 5:
		return "\n\n" + label + "\n\n"
	default:
		return fmt.Sprintf("#!/bin/sh\nset -e\necho %s $1\nexit 0\n", label)
	}
}

func nontrivialC09(c *BuildCase) bool {
	if len(c.Scripts) == 0 {
		return false
	}
	distinct := map[string]bool{}
	ti := indexTree(c.Tree)
	for _, rel := range c.Scripts {
		distinct[string(scriptBytes(ti, rel))] = true
	}
	return len(distinct) >= 2 || len(c.Scripts) < len(allScriptSlots)
}

func TestC09(t *testing.T) {
	st := newStats("C09")
	defer st.Flush()
	var rc BuildCase
	if replayCase(&rc) {
		st.Record(&rc, true, "replay")
		st.Report(t, &rc, checkC09(&rc))
		return
	}
	// exhaustive over subsets of the configurable slots of each format
	for _, f := range AllFormats {
		slots := sortedKeys(slotsOf(f))
		n := 0
		for mask := 0; mask < 1<<len(slots); mask++ {
			c := scriptBaseCase()
			c.Formats = []string{f}
			if mask%3 == 1 {
				c.Umask = 0o027 // slot modes are fixed by the format, not by the package umask
			}
			for i, s := range slots {
				if mask&(1<<i) != 0 {
					addScript(c, s, fmt.Sprintf("#!/bin/sh\n# slot %s of subset %d\necho %s\n", s, mask, s), 950000000+int64(i))
				}
			}
			// every slot of *other* formats is configured too: it must not leak into this one
			if mask%2 == 1 {
				for _, s := range allScriptSlots {
					if _, mine := slotsOf(f)[s]; !mine {
						addScript(c, s, "#!/bin/sh\n# foreign "+s+"\n", 940000000)
					}
				}
			}
			st.Record(c, mask != 0, "subset:"+f)
			st.Report(t, c, checkC09(c))
			n++
		}
		st.Exhaustive["slot subsets "+f] = n
	}
	rapid.Check(t, func(rt *rapid.T) {
		c := scriptBaseCase()
		for _, s := range allScriptSlots {
			if rapid.IntRange(0, 2).Draw(rt, "set."+s) != 0 {
				addScript(c, s, genScriptBytes(rt, s), genMTime(rt, "mt."+s))
			}
		}
		// a script path may be a symbolic link to the real file (relative target, another directory)
		for _, slot := range sortedKeys(c.Scripts) {
			if rapid.IntRange(0, 3).Draw(rt, "linked."+slot) == 0 {
				real := c.Scripts[slot]
				link := "scripts/links/" + strings.ReplaceAll(slot, ".", "_") + ".lnk"
				c.Tree = append(c.Tree, FNode{Rel: link, Kind: "symlink", Target: "../" + strings.TrimPrefix(real, "scripts/")})
				c.Scripts[slot] = link
			}
		}
		// two slots may be wired to the very same file
		if len(c.Scripts) >= 2 && rapid.IntRange(0, 3).Draw(rt, "shared-path") == 0 {
			keys := sortedKeys(c.Scripts)
			a := rapid.SampledFrom(keys).Draw(rt, "shared.a")
			b := rapid.SampledFrom(keys).Draw(rt, "shared.b")
			c.Scripts[b] = c.Scripts[a]
		}
		if rapid.Bool().Draw(rt, "umask?") {
			c.Umask = uint32(rapid.SampledFrom([]int{0o022, 0o027, 0o077, 0o111, 0o133}).Draw(rt, "umask"))
		}
		st.Record(c, nontrivialC09(c), fmt.Sprintf("slots:%d", len(c.Scripts)))
		st.Report(rt, c, checkC09(c))
	})
}
