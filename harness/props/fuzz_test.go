package props

// Native coverage-guided fuzz targets (thorough tier only; they cannot be pinned to a
// seed, the saved crasher is the reproducible unit). Each target carries its semantic
// oracle; a panic inside nfpm is reported as a failure as well.

import (
	"os"
	"path"
	"path/filepath"
	"regexp"
	"strings"
	"testing"
	"time"

	"github.com/goreleaser/nfpm/v2/files"
	"gopkg.in/yaml.v3"
)

// ---------- C16: any accepted document uses only defined key paths ----------

func knownPathPrefixes() (exact map[string]bool, freeform map[string]bool) {
	exact, freeform = map[string]bool{}, map[string]bool{}
	for _, kp := range configKeyPaths() {
		segs := append([]string(nil), kp.Segs...)
		for i := range segs {
			if i > 0 && segs[i-1] == "overrides" {
				segs[i] = "*"
			}
		}
		p := strings.Join(segs, pathSep)
		exact[p] = true
		if kp.Leaf && kp.Type.Kind().String() == "map" {
			freeform[p] = true
		}
	}
	return
}

// docKeyPaths lists the key paths of a YAML document (aliases resolved, merge keys expanded).
func docKeyPaths(n *yaml.Node, prefix []string, out *[]string, depth int) {
	if depth > 40 {
		return
	}
	switch n.Kind {
	case yaml.DocumentNode:
		for _, c := range n.Content {
			docKeyPaths(c, prefix, out, depth+1)
		}
	case yaml.AliasNode:
		if n.Alias != nil {
			docKeyPaths(n.Alias, prefix, out, depth+1)
		}
	case yaml.MappingNode:
		for i := 0; i+1 < len(n.Content); i += 2 {
			k, v := n.Content[i], n.Content[i+1]
			if k.Kind == yaml.AliasNode && k.Alias != nil {
				k = k.Alias // `*b:` - the key is whatever the anchor holds (e.g. the null of `&b:`)
			}
			if k.Tag == "!!merge" || k.Value == "<<" {
				docKeyPaths(v, prefix, out, depth+1)
				continue
			}
			if k.Kind == yaml.ScalarNode && (k.Tag == "!!null" || (k.Value == "" && k.Style == 0)) {
				*out = append(*out, strings.Join(append(append([]string(nil), prefix...), "<null-key>"), pathSep))
				continue
			}
			p := append(append([]string(nil), prefix...), k.Value)
			*out = append(*out, strings.Join(p, pathSep))
			docKeyPaths(v, p, out, depth+1)
		}
	case yaml.SequenceNode:
		for _, c := range n.Content {
			if c.Kind == yaml.SequenceNode {
				continue
			}
			docKeyPaths(c, append(append([]string(nil), prefix...), "[]"), out, depth+1)
		}
	}
}

// pathSep joins key path segments; keys may contain dots, so a control character is used.
const pathSep = "\x1f"

func normPath(p string) string {
	segs := strings.Split(p, pathSep)
	for i := range segs {
		if i > 0 && segs[i-1] == "overrides" {
			segs[i] = "*"
		}
	}
	return strings.Join(segs, pathSep)
}

func FuzzC16StrictYAML(f *testing.F) {
	exact, freeform := knownPathPrefixes()
	seeds, _ := filepath.Glob(filepath.Join(repoDir(), "testdata/*.yaml"))
	for _, s := range seeds {
		if b, err := os.ReadFile(s); err == nil {
			f.Add(b)
		}
	}
	f.Add([]byte("name: n\narch: amd64\nversion: 1.0.0\ndeb:\n  fields:\n    Bugs: x\noverrides:\n  rpm:\n    depends: [a]\n"))
	f.Add([]byte("base: &b\n  name: n\n<<: *b\narch: a\nversion: 1\n"))
	f.Add([]byte("name: n\narch: a\nversion: 1\ncontents:\n- dst: /x\n  type: dir\n  file_info: {mode: 0755, owner: o}\n"))
	f.Add([]byte("&b:\n*b:")) // an anchored null key and its alias: two null keys (recorded finding), found by this target
	f.Fuzz(func(t *testing.T, data []byte) {
		if len(data) > 1<<16 || strings.Contains(string(data), pathSep) {
			return
		}
		var doc yaml.Node
		if err := yaml.Unmarshal(data, &doc); err != nil {
			return
		}
		if strings.Contains(string(data), ": null") || strings.Contains(string(data), ": ~") {
			return // null override blocks are outside the domain (DESIGN 4/C16)
		}
		_, err := parseText(string(data), noEnv)
		if err != nil {
			// rejected (an error, or a panic on null blocks / null list elements, which no listed property covers): nothing to check
			return
		}
		var paths []string
		docKeyPaths(&doc, nil, &paths, 0)
		for _, p := range paths {
			np := normPath(p)
			if exact[np] {
				continue
			}
			ok := false
			for ff := range freeform {
				if strings.HasPrefix(np, ff+pathSep) {
					ok = true
				}
			}
			// keys below a scalar that the parser decoded from a mapping cannot exist; anything else is an undefined key
			if !ok {
				if strings.HasSuffix(np, "<null-key>") {
					if _, known := matchKnown("C16", Violation{Clause: "C16.strict.null-key-accepted"}); known {
						continue // recorded finding: yaml.v3 skips null keys even with KnownFields
					}
				}
				t.Fatalf("accepted document uses undefined key path %q", p)
			}
		}
	})
}

// ---------- C14: the version is used verbatim or split into a valid major.minor.patch ----------

var longDigits = regexp.MustCompile(`[0-9]{19,}`)
var coreRe = regexp.MustCompile(`^[0-9]+\.[0-9]+\.[0-9]+$`)
var strictSemver = regexp.MustCompile(`^v?(0|[1-9][0-9]*)(\.(0|[1-9][0-9]*))?(\.(0|[1-9][0-9]*))?(-((0|[1-9][0-9]*|[0-9]*[a-zA-Z-][0-9a-zA-Z-]*)(\.(0|[1-9][0-9]*|[0-9]*[a-zA-Z-][0-9a-zA-Z-]*))*))?(\+([0-9a-zA-Z-]+(\.[0-9a-zA-Z-]+)*))?$`)

func FuzzC14Split(f *testing.F) {
	for _, s := range []string{"1.2.3", "v1.2", "1", "1.2.3-beta.1+git.5", "1.2.3.4", "1..2", "x.1.2", "01.2.3", "1.2.3-01", "1.2.3-", "1.2.3+", "v", "", "1.2.3-a..b", "1.2.3-rc1-2", "99999999999999999999.1.1"} {
		f.Add(s, "", "")
	}
	f.Add("1.2.3-rc1", "beta", "meta")
	f.Fuzz(func(t *testing.T, version, pre, meta string) {
		if len(version) > 200 || version == "" || strings.ContainsAny(version+pre+meta, "\n\r\x00$") || strings.TrimSpace(version) != version {
			return
		}
		for _, r := range version + pre + meta {
			if r < 0x20 || r > 0x7e {
				return
			}
		}
		if longDigits.MatchString(version) {
			return // numeric identifiers beyond 18 digits overflow every implementation's integers: outside the domain
		}
		sc := &SplitCase{V: GenVersion{Text: version}}
		sc.Explicit.Pre, sc.Explicit.Meta = pre, meta
		c := &BuildCase{Meta: Meta{Name: "ver", Arch: "amd64", Version: version, Prerelease: pre, VersionMetadata: meta}}
		cfg, err := c.ParseConfig("/nonexistent")
		if err != nil {
			return // not a representable YAML scalar
		}
		m := strictSemver.FindStringSubmatch(version)
		if cfg.Version == version {
			// verbatim: fine unless the string is a semantic version by the strict grammar (then it must be split)
			if m != nil && !coreRe.MatchString(strings.TrimPrefix(version, "v")) {
				t.Fatalf("version %q is a semantic version but was used verbatim", version)
			}
			if pre != "" && cfg.Prerelease != pre {
				t.Fatalf("explicit prerelease %q lost: %q", pre, cfg.Prerelease)
			}
			return
		}
		if !coreRe.MatchString(cfg.Version) {
			t.Fatalf("version %q was changed to %q which is not major.minor.patch", version, cfg.Version)
		}
		// nothing lost or duplicated: the core digits, the prerelease and the metadata re-assemble to the input
		wantPre, wantMeta := cfg.Prerelease, cfg.VersionMetadata
		rest := strings.TrimPrefix(version, "v")
		inPre, inMeta := "", ""
		if i := strings.IndexByte(rest, '+'); i >= 0 {
			rest, inMeta = rest[:i], rest[i+1:]
		}
		if i := strings.IndexByte(rest, '-'); i >= 0 {
			rest, inPre = rest[:i], rest[i+1:]
		}
		if pre == "" && wantPre != inPre {
			t.Fatalf("version %q: prerelease %q, the string carries %q", version, wantPre, inPre)
		}
		if pre != "" && wantPre != pre {
			t.Fatalf("version %q: explicit prerelease %q does not win: %q", version, pre, wantPre)
		}
		if meta == "" && wantMeta != inMeta {
			t.Fatalf("version %q: metadata %q, the string carries %q", version, wantMeta, inMeta)
		}
		if meta != "" && wantMeta != meta {
			t.Fatalf("version %q: explicit metadata %q does not win: %q", version, meta, wantMeta)
		}
		nums := strings.Split(rest, ".")
		got := strings.Split(cfg.Version, ".")
		for i := 0; i < 3; i++ {
			w := "0"
			if i < len(nums) {
				w = strings.TrimLeft(nums[i], "0")
				if w == "" {
					w = "0"
				}
			}
			if got[i] != w {
				t.Fatalf("version %q: numeric part %d is %q, the string says %q", version, i, got[i], w)
			}
		}
	})
}

// ---------- C05: destination spellings ----------

func FuzzC05Destination(f *testing.F) {
	root, err := os.MkdirTemp("", "fuzzc05")
	if err != nil {
		f.Fatal(err)
	}
	f.Cleanup(func() { os.RemoveAll(root) })
	if err := Materialize(root, c05Tree); err != nil {
		f.Fatal(err)
	}
	for _, s := range []string{"/a", "/a/", "a/b", "/a/../b", "//a//b/", "/a/./b", "./a", "/a b/c", "/é/x", "/a/b/../../c/d", "/a/.", "/a/..b", "/...", "/a/.../b"} {
		f.Add(s, "/zz/other", byte(0))
	}
	f.Fuzz(func(t *testing.T, dst, dst2 string, kind byte) {
		for _, d := range []string{dst, dst2} {
			if len(d) == 0 || len(d) > 64 || strings.ContainsAny(d, "\x00\\") || climbsAboveRoot(d) || path.Clean("/"+d) == "/" {
				return
			}
		}
		typ := []string{"file", "dir", "symlink", "ghost", "config"}[int(kind)%5]
		e := Entry{Dst: dst, Type: typ, Form: "none"}
		switch typ {
		case "file", "config":
			e.Src, e.Form = "src/one", "single"
		case "symlink":
			e.Src = "/t"
		}
		pc := &PlanCase{Tree: c05Tree, Contents: []Entry{e, {Src: "src/one", Dst: dst2, Type: "file", Form: "single"}}, Packager: "rpm"}
		if vs := loadFilter("C05", checkC05(root, pc, permutations(2))); len(vs) > 0 {
			t.Fatalf("dst %q + %q (%s): %v", dst, dst2, typ, vs[0])
		}
	})
}

func loadFilter(prop string, vs []Violation) []Violation {
	var out []Violation
	for _, v := range vs {
		if _, ok := matchKnown(prop, v); !ok {
			out = append(out, v)
		}
	}
	return out
}

var _ = files.ErrContentCollision
var _ = time.Now
