package props

import (
	"fmt"
	"strings"

	"pgregory.net/rapid"
)

// ---------- names ----------

var plainName = rapid.StringMatching(`[a-z0-9][a-z0-9._-]{0,7}`)

func genName(t *rapid.T, label string, allowMeta bool) string {
	k := rapid.IntRange(0, 10).Draw(t, label+".class")
	switch {
	case k <= 5:
		return plainName.Draw(t, label)
	case k == 10:
		// long names: around the 100-byte name field of a tar header, the 155-byte prefix field, and up to NAME_MAX
		n := rapid.SampledFrom([]int{60, 80, 85, 90, 95, 99, 100, 101, 120, 154, 155, 156, 200, 240}).Draw(t, label+".len")
		return plainName.Draw(t, label) + "-" + strings.Repeat("L", n-1) + "g"
	case k == 6:
		return plainName.Draw(t, label) + " " + plainName.Draw(t, label+"2")
	case k == 7:
		return rapid.SampledFrom([]string{"données", "файл", "名前", "ü-ber.txt", "naïve name",
			"hash#tag", "#lead", "per%cent", "eq=ual", "co:lon", "it's", "dq\"q", "amp&and", "semi;colon", "tilde~", "at@sign", "comma,name", "plus+plus", "caret^", "excl!", "(paren)", "tab\tname", "pipe|name", "lt<gt>"}).Draw(t, label)
	case k == 8 && allowMeta:
		return rapid.SampledFrom([]string{"we[ird]", "a{b,c}", "star*", "q?mark", "[x]", "{solo}", "b]r[", "back\\slash"}).Draw(t, label)
	default:
		return plainName.Draw(t, label) + rapid.SampledFrom([]string{".conf", ".txt", ".so.1", ".1.gz", ""}).Draw(t, label+".ext")
	}
}

func genMTime(t *rapid.T, label string) int64 {
	// whole seconds between 1990-01-01 and 2015-01-01: never confusable with "now"
	return rapid.Int64Range(631152000, 1420070400).Draw(t, label)
}

func genSize(t *rapid.T, label string) int {
	k := rapid.IntRange(0, 99).Draw(t, label+".class")
	switch {
	case k < 10:
		return 0
	case k < 70:
		return rapid.IntRange(1, 200).Draw(t, label)
	case k < 85:
		return rapid.IntRange(4000, 4200).Draw(t, label)
	case k < 89:
		return rapid.IntRange(1000, 70000).Draw(t, label)
	case k < 93:
		// exact multiples of the tar block size: padding / alignment boundaries
		return rapid.SampledFrom([]int{512, 1024, 1536, 4096, 10240}).Draw(t, label)
	case k < 98:
		return rapid.IntRange(131000, 140000).Draw(t, label)
	default:
		if thorough() {
			return rapid.IntRange(1<<20, 3<<20).Draw(t, label)
		}
		return rapid.IntRange(1<<20, 1<<20+5000).Draw(t, label)
	}
}

// on-disk modes: permission bits, sometimes with setuid / setgid / sticky set on the source itself
func genFileMode(t *rapid.T, label string) uint32 {
	m := uint32(rapid.IntRange(0, 0o777).Draw(t, label)) | 0o400
	switch rapid.IntRange(0, 11).Draw(t, label+".special") {
	case 0:
		m |= 0o4000
	case 1:
		m |= 0o2000
	case 2:
		m |= 0o1000
	}
	return m
}

func genDirMode(t *rapid.T, label string) uint32 {
	m := uint32(rapid.IntRange(0, 0o777).Draw(t, label)) | 0o700
	switch rapid.IntRange(0, 11).Draw(t, label+".special") {
	case 0:
		m |= 0o2000 // setgid directories are common in shared trees
	case 1:
		m |= 0o1000
	}
	return m
}

var userName = rapid.StringMatching(`[a-z_][a-z0-9_-]{0,7}`)

func genFileInfo(t *rapid.T, label string, allowMTime bool) *FileInfoSpec {
	if !rapid.Bool().Draw(t, label+".has") {
		return nil
	}
	fi := &FileInfoSpec{}
	if rapid.IntRange(0, 5).Draw(t, label+".complete") == 0 {
		// everything declared: nothing is left to default
		fi.Owner, fi.Group = userName.Draw(t, label+".owner"), userName.Draw(t, label+".group")
		fi.Mode = uint32(rapid.IntRange(1, 0o777).Draw(t, label+".mode"))
		if allowMTime {
			fi.MTime = genMTime(t, label+".mtime")
		}
		return fi
	}
	if rapid.Bool().Draw(t, label+".owner?") {
		fi.Owner = userName.Draw(t, label+".owner")
	}
	if rapid.Bool().Draw(t, label+".group?") {
		fi.Group = userName.Draw(t, label+".group")
	}
	if rapid.Bool().Draw(t, label+".mode?") {
		m := uint32(rapid.IntRange(1, 0o777).Draw(t, label+".mode"))
		switch rapid.IntRange(0, 5).Draw(t, label+".special") {
		case 0:
			m |= 0o4000
		case 1:
			m |= 0o2000
		case 2:
			m |= 0o1000
		}
		fi.Mode = m
	}
	if allowMTime && rapid.Bool().Draw(t, label+".mtime?") {
		fi.MTime = genMTime(t, label+".mtime")
	}
	return fi
}

// ---------- source units ----------

type unit struct {
	dir   string  // rel path of the unit directory, e.g. src/u3
	nodes []FNode // everything below (and including) dir
	top   []string
	files []string // rel paths of non-dir nodes
}

// genUnit builds a small source subtree for one entry.
//
//	deep:      allow nested directories
//	dirLinks:  allow on-disk symlinks to directories / empty dirs (tree sources only)
func genUnit(t *rapid.T, dir string, label string, minFiles, maxFiles int, deep, dirLinks, allowMeta bool) unit {
	u := unit{dir: dir}
	u.nodes = append(u.nodes, FNode{Rel: dir, Kind: "dir", Mode: genDirMode(t, label+".dmode"), MTime: genMTime(t, label+".dmtime")})
	nf := rapid.IntRange(minFiles, maxFiles).Draw(t, label+".nfiles")
	dirs := []string{dir}
	used := map[string]bool{}
	if deep {
		nd := rapid.IntRange(0, 3).Draw(t, label+".ndirs")
		for i := 0; i < nd; i++ {
			parent := rapid.SampledFrom(dirs).Draw(t, fmt.Sprintf("%s.dparent%d", label, i))
			if strings.Count(parent, "/")-strings.Count(dir, "/") >= 3 {
				parent = dir
			}
			name := genName(t, fmt.Sprintf("%s.dname%d", label, i), allowMeta)
			p := parent + "/" + name
			if used[p] {
				continue
			}
			used[p] = true
			dirs = append(dirs, p)
			u.nodes = append(u.nodes, FNode{Rel: p, Kind: "dir", Mode: genDirMode(t, label+".dmode"), MTime: genMTime(t, label+".dmtime")})
		}
	}
	var regular []string
	for i := 0; i < nf; i++ {
		parent := dir
		if deep {
			parent = rapid.SampledFrom(dirs).Draw(t, fmt.Sprintf("%s.fparent%d", label, i))
		}
		if dirLinks && i == 0 {
			parent = dir
		}
		name := genName(t, fmt.Sprintf("%s.fname%d", label, i), allowMeta)
		p := parent + "/" + name
		if used[p] {
			p = fmt.Sprintf("%s/f%d-%s", parent, i, name)
		}
		used[p] = true
		kind := rapid.IntRange(0, 11).Draw(t, fmt.Sprintf("%s.fkind%d", label, i))
		switch {
		case kind == 0 && len(regular) > 0:
			// symlink to a regular file of the same unit, by relative path
			tgt := rapid.SampledFrom(regular).Draw(t, fmt.Sprintf("%s.ltgt%d", label, i))
			u.nodes = append(u.nodes, FNode{Rel: p, Kind: "symlink", Target: relTo(pathDir(p), tgt)})
		case kind == 1 && i > 0:
			// dangling symlink, absolute or relative
			tgt := rapid.SampledFrom([]string{"/nonexistent/target", "../gone", "missing file", "/usr/lib/libfoo.so.1", longTarget100, longTarget300}).Draw(t, fmt.Sprintf("%s.dangling%d", label, i))
			u.nodes = append(u.nodes, FNode{Rel: p, Kind: "symlink", Target: tgt})
		case kind == 2 && dirLinks && len(dirs) > 1:
			tgt := rapid.SampledFrom(dirs[1:]).Draw(t, fmt.Sprintf("%s.dirlink%d", label, i))
			u.nodes = append(u.nodes, FNode{Rel: p, Kind: "symlink", Target: relTo(pathDir(p), tgt)})
		default:
			u.nodes = append(u.nodes, FNode{Rel: p, Kind: "file", Size: genSize(t, fmt.Sprintf("%s.size%d", label, i)),
				Seed: rapid.IntRange(1, 1<<20).Draw(t, fmt.Sprintf("%s.seed%d", label, i)),
				Mode: genFileMode(t, fmt.Sprintf("%s.mode%d", label, i)), MTime: genMTime(t, fmt.Sprintf("%s.mtime%d", label, i)),
				NS: rapid.SampledFrom([]int64{0, 0, 0, 400000000, 500000000, 999999999}).Draw(t, fmt.Sprintf("%s.ns%d", label, i))})
			regular = append(regular, p)
		}
	}
	for _, n := range u.nodes[1:] {
		if pathDir(n.Rel) == dir {
			u.top = append(u.top, pathBase(n.Rel))
		}
		if n.Kind != "dir" {
			u.files = append(u.files, n.Rel)
		}
	}
	return u
}

func pathDir(p string) string {
	i := strings.LastIndexByte(p, '/')
	if i < 0 {
		return "."
	}
	return p[:i]
}

func pathBase(p string) string {
	return p[strings.LastIndexByte(p, '/')+1:]
}

// relTo returns a relative path from directory `from` to `to` (both rel to the case root).
func relTo(from, to string) string {
	fp := strings.Split(from, "/")
	tp := strings.Split(to, "/")
	n := 0
	for n < len(fp) && n < len(tp) && fp[n] == tp[n] {
		n++
	}
	var parts []string
	for i := n; i < len(fp); i++ {
		parts = append(parts, "..")
	}
	parts = append(parts, tp[n:]...)
	if len(parts) == 0 {
		return "."
	}
	return strings.Join(parts, "/")
}

// ---------- destinations ----------

// link targets beyond the 100-byte linkname field of a tar header
var (
	longTarget100 = "/usr/lib/" + strings.Repeat("t", 91)                                    // exactly 100 bytes
	longTarget300 = "../" + strings.Repeat("deep-directory-name/", 14) + "final target.so.1" // about 300 bytes
)

var dstPrefixes = []string{"/opt/app", "/usr/share/foo", "/etc/foo", "/var/lib/my app", "/srv/données", "/usr/lib/foo/bar", "/opt/x/y/z",
	"/+extras", "/.BUILD/x", "/-opt", "/.1st", "/ lead", "/x/y", "/o"}

// spellDst returns an alternative spelling of an absolute clean path that denotes the same node.
func spellDst(t *rapid.T, label, clean string, allowTrailing bool) string {
	switch rapid.IntRange(0, 9).Draw(t, label+".spell") {
	case 0:
		return strings.TrimPrefix(clean, "/") // relative
	case 1:
		return strings.Replace(clean, "/", "//", 1)
	case 2:
		i := strings.LastIndexByte(clean, '/')
		return clean[:i] + "/./" + clean[i+1:]
	case 3:
		i := strings.LastIndexByte(clean, '/')
		return clean[:i] + "/zz/../" + clean[i+1:]
	case 4:
		if allowTrailing {
			return clean + "/"
		}
	}
	return clean
}

// ---------- content lists ----------

type contentOpts struct {
	maxEntries   int
	rpmOnlyTypes bool
	packagerTags bool
	weirdNames   bool
	spellings    bool
	trees        bool
}

var fileTypes = []string{"", "", "file", "config", "config|noreplace", "config|missingok"}

// genContents builds a collision-free content list together with the source tree it needs.
func genContents(t *rapid.T, c *BuildCase, o contentOpts) {
	n := rapid.IntRange(0, o.maxEntries).Draw(t, "nentries")
	np := rapid.IntRange(1, 3).Draw(t, "nprefixes")
	var prefixes []string
	for i := 0; i < np; i++ {
		prefixes = append(prefixes, rapid.SampledFrom(dstPrefixes).Draw(t, fmt.Sprintf("prefix%d", i)))
	}
	explicitDirs := map[string]bool{}
	for i := 0; i < n; i++ {
		lbl := fmt.Sprintf("e%d", i)
		prefix := rapid.SampledFrom(prefixes).Draw(t, lbl+".prefix")
		leaf := fmt.Sprintf("e%d", i)
		if o.weirdNames && rapid.IntRange(0, 3).Draw(t, lbl+".leafclass") == 0 {
			leaf += "-" + genName(t, lbl+".leaf", true)
		}
		clean := prefix + "/" + leaf
		e := Entry{}
		if o.packagerTags && rapid.IntRange(0, 4).Draw(t, lbl+".tagged") == 0 {
			e.Packager = rapid.SampledFrom(AllFormats).Draw(t, lbl+".packager")
		}
		kind := rapid.IntRange(0, 19).Draw(t, lbl+".kind")
		spell := func(p string, trailing bool) string {
			if o.spellings {
				return spellDst(t, lbl, p, trailing)
			}
			return p
		}
		udir := fmt.Sprintf("src/u%d", i)
		atRoot := false
		_ = atRoot
		switch {
		case kind <= 7: // file-like with some source form
			e.Type = rapid.SampledFrom(fileTypes).Draw(t, lbl+".type")
			e.FI = genFileInfo(t, lbl+".fi", true)
			form := rapid.SampledFrom([]string{"single", "single", "singleslash", "dir", "dirslash", "flat", "glob*", "globext", "globbrace", "glob**", "globq", "globsib"}).Draw(t, lbl+".form")
			allowMeta := o.weirdNames
			switch form {
			case "single", "singleslash":
				u := genUnit(t, udir, lbl+".u", 1, 1, false, false, allowMeta && c.DisableGlobbing)
				c.Tree = append(c.Tree, u.nodes...)
				e.Src = u.files[0]
				e.Form = "single"
				if form == "singleslash" {
					e.Dst = clean + "/"
				} else {
					e.Dst = spell(clean, false)
				}
			case "dir", "dirslash", "flat":
				u := genUnit(t, udir, lbl+".u", 1, 5, form != "flat", form != "flat", allowMeta) // symbolic links to directories inside a directory source are entries like any other link
				c.Tree = append(c.Tree, u.nodes...)
				e.Src = udir
				e.Form = "dir"
				if form == "dirslash" {
					e.Src = udir + "/"
				}
				e.Dst = spell(clean, false)
				if form == "flat" {
					e.Dst = clean + "/"
					e.Form = "flat"
				}
			default:
				if c.DisableGlobbing {
					// a pattern would be taken literally: fall back to a directory source
					u := genUnit(t, udir, lbl+".u", 1, 4, true, true, allowMeta)
					c.Tree = append(c.Tree, u.nodes...)
					e.Src, e.Form, e.Dst = udir, "dir", spell(clean, false)
					break
				}
				u := genUnit(t, udir, lbl+".u", 2, 5, true, false, false)
				e.Form = "glob"
				e.Dst = spell(clean, false)
				switch form {
				case "glob*":
					e.Src = udir + "/*"
				case "glob**":
					e.Src = udir + "/**"
				case "globext":
					// make sure at least one top-level regular file has the extension
					u.nodes = append(u.nodes, FNode{Rel: udir + "/Extra.cfg", Kind: "file", Size: 12, Seed: 7 + i, Mode: 0o644, MTime: genMTime(t, lbl+".xm")})
					if rapid.Bool().Draw(t, lbl+".second") {
						u.nodes = append(u.nodes, FNode{Rel: udir + "/Other.cfg", Kind: "file", Size: 33, Seed: 8 + i, Mode: 0o600, MTime: genMTime(t, lbl+".xm2")})
					}
					e.Src = udir + "/*.cfg"
				case "globq":
					u.nodes = append(u.nodes, FNode{Rel: udir + "/Qa", Kind: "file", Size: 5, Seed: 9 + i, Mode: 0o640, MTime: genMTime(t, lbl+".xm")})
					u.nodes = append(u.nodes, FNode{Rel: udir + "/Qb", Kind: "file", Size: 6, Seed: 10 + i, Mode: 0o604, MTime: genMTime(t, lbl+".xm2")})
					e.Src = udir + "/Q?"
				case "globsib":
					// matches only inside sibling directories one of whose names is a prefix of the other
					pair := rapid.SampledFrom([][2]string{{"Lib", "Lib64"}, {"Man", "Man1"}, {"A", "AB"}}).Draw(t, lbl+".sib")
					u.nodes = append(u.nodes, FNode{Rel: udir + "/" + pair[0], Kind: "dir", Mode: 0o755, MTime: genMTime(t, lbl+".sm0")},
						FNode{Rel: udir + "/" + pair[1], Kind: "dir", Mode: 0o755, MTime: genMTime(t, lbl+".sm1")},
						FNode{Rel: udir + "/" + pair[0] + "/Liba.so", Kind: "file", Size: 17, Seed: 13 + i, Mode: 0o755, MTime: genMTime(t, lbl+".sm2")},
						FNode{Rel: udir + "/" + pair[1] + "/Libb.so", Kind: "file", Size: 19, Seed: 14 + i, Mode: 0o755, MTime: genMTime(t, lbl+".sm3")})
					e.Src = udir + "/**/*.so"
				case "globbrace":
					u.nodes = append(u.nodes, FNode{Rel: udir + "/One.x", Kind: "file", Size: 5, Seed: 11 + i, Mode: 0o644, MTime: genMTime(t, lbl+".xm")})
					u.nodes = append(u.nodes, FNode{Rel: udir + "/Two.x", Kind: "file", Size: 6, Seed: 12 + i, Mode: 0o644, MTime: genMTime(t, lbl+".xm2")})
					e.Src = udir + "/{One,Two}.x"
				}
				c.Tree = append(c.Tree, u.nodes...)
			}
		case kind <= 9: // explicit directory, sometimes on a shared prefix (taking the place of an implied one)
			e.Type = "dir"
			e.FI = genFileInfo(t, lbl+".fi", true)
			e.Form = "none"
			if rapid.IntRange(0, 3).Draw(t, lbl+".dirsrc") == 0 {
				// mode (and mtime) taken from a directory of the build environment
				c.Tree = append(c.Tree, FNode{Rel: udir, Kind: "dir", Mode: genDirMode(t, lbl+".dirsrc.mode"), MTime: genMTime(t, lbl+".dirsrc.mtime")})
				e.Src = udir
			}
			if rapid.Bool().Draw(t, lbl+".onprefix") && !explicitDirs[prefix] && e.Packager == "" {
				explicitDirs[prefix] = true
				e.Dst = spell(prefix, true)
			} else {
				e.Dst = spell(clean, true)
			}
		case kind <= 12: // symlink with a literal target
			e.Type = "symlink"
			e.Form = "none"
			e.Src = rapid.SampledFrom([]string{"/usr/bin/real", "../lib/libx.so.1", "relative/target", "/opt/app/e0", "target with space", "/a//b/./c", "x/../y", ".", "..", "/usr/lib", "/etc/passwd", "/", longTarget100, longTarget300}).Draw(t, lbl+".target")
			e.FI = genFileInfo(t, lbl+".fi", false)
			e.Dst = spell(clean, false)
		case kind <= 14 && o.trees:
			e.Type = "tree"
			e.Form = "tree"
			atRoot = rapid.IntRange(0, 5).Draw(t, lbl+".atroot") == 0
			if atRoot {
				// a root file system skeleton replicated at the root of the package (`src: rootfs/  dst: /`): the
				// generated unit hangs below one top-level directory of its own, so that it meets no other entry
				c.Tree = append(c.Tree, FNode{Rel: udir, Kind: "dir", Mode: 0o755, MTime: genMTime(t, lbl+".rootmtime")})
				u := genUnit(t, fmt.Sprintf("%s/RootTop%d", udir, i), lbl+".u", 1, 5, true, true, o.weirdNames)
				c.Tree = append(c.Tree, u.nodes...)
			} else {
				u := genUnit(t, udir, lbl+".u", 1, 5, true, true, o.weirdNames)
				c.Tree = append(c.Tree, u.nodes...)
			}
			e.Src = udir
			if rapid.Bool().Draw(t, lbl+".srcslash") {
				e.Src += "/"
			}
			e.FI = genFileInfo(t, lbl+".fi", true)
			e.Dst = spell(clean, true)
			if atRoot {
				e.Dst = rapid.SampledFrom([]string{"/", "/", "//", "/.", "/./"}).Draw(t, lbl+".rootspelling")
				clean = ""
			}
		case kind <= 16 && o.rpmOnlyTypes:
			e.Type = "ghost"
			e.Form = "none"
			e.FI = genFileInfo(t, lbl+".fi", false)
			e.Dst = spell(clean, false)
		case kind <= 18 && o.rpmOnlyTypes:
			e.Type = rapid.SampledFrom([]string{"doc", "licence", "license", "readme"}).Draw(t, lbl+".rpmtype")
			e.Form = "single"
			u := genUnit(t, udir, lbl+".u", 1, 1, false, false, o.weirdNames)
			c.Tree = append(c.Tree, u.nodes...)
			e.Src = u.files[0]
			e.FI = genFileInfo(t, lbl+".fi", true)
			e.Dst = spell(clean, false)
		default:
			e.Type = ""
			e.Form = "single"
			u := genUnit(t, udir, lbl+".u", 1, 1, false, false, false)
			c.Tree = append(c.Tree, u.nodes...)
			e.Src = u.files[0]
			e.Dst = clean
		}
		if e.Type != "ghost" && e.Type != "dir" && strings.TrimSpace(e.Dst) == e.Dst && strings.TrimSpace(e.Src) == e.Src && rapid.IntRange(0, 5).Draw(t, lbl+".expand") == 0 {
			e.Expand = true // no '$' anywhere: expansion must leave the entry exactly as it is
		}
		if e.Type == "tree" && rapid.IntRange(0, 2).Draw(t, lbl+".inside") == 0 {
			// another entry that lives inside the tree's destination (in one of the tree's own directories):
			// listed before or after the tree, the tree's directory must win over the implied one
			u := indexTree(c.Tree)
			dirs := []string{""}
			root := strings.TrimSuffix(e.Src, "/")
			for _, n := range u.under(root) {
				if n.Kind == "dir" {
					dirs = append(dirs, strings.TrimPrefix(n.Rel, root))
				}
			}
			sub := rapid.SampledFrom(dirs).Draw(t, lbl+".inside.dir")
			c.Tree = append(c.Tree, FNode{Rel: fmt.Sprintf("src/in%d", i), Kind: "file", Size: 21, Seed: 31 + i, Mode: 0o644, MTime: genMTime(t, lbl+".inside.m")})
			in := Entry{Src: fmt.Sprintf("src/in%d", i), Dst: clean + sub + fmt.Sprintf("/Inside-%d", i), Form: "single", Packager: e.Packager}
			if rapid.Bool().Draw(t, lbl+".inside.first") {
				c.Contents = append(c.Contents, in, e)
			} else {
				c.Contents = append(c.Contents, e, in)
			}
			continue
		}
		c.Contents = append(c.Contents, e)
	}
	// flattening (dst ends in '/') must not make two matches collide: give up flattening if basenames repeat
	ti := indexTree(c.Tree)
	for i := range c.Contents {
		e := &c.Contents[i]
		if e.Form != "flat" {
			continue
		}
		ms, _, _ := ti.expandSource(e.Src, c.DisableGlobbing)
		seen := map[string]bool{}
		for _, m := range ms {
			if seen[pathBase(m)] {
				e.Dst = strings.TrimSuffix(e.Dst, "/")
				e.Form = "dir"
				break
			}
			seen[pathBase(m)] = true
		}
	}
}

// ---------- identity ----------

var pkgName = rapid.StringMatching(`[a-zA-Z][a-zA-Z0-9]{1,6}([.+_-][a-zA-Z0-9]{1,4}){0,2}`) // rpm, apk and archlinux names may hold upper-case letters and underscores; nfpm validates none for deb

func genBasicMeta(t *rapid.T) Meta {
	return Meta{
		Name:        pkgName.Draw(t, "name"),
		Arch:        rapid.SampledFrom([]string{"amd64", "386", "arm64", "arm7", "all"}).Draw(t, "arch"),
		Version:     fmt.Sprintf("%d.%d.%d", rapid.IntRange(0, 20).Draw(t, "maj"), rapid.IntRange(0, 20).Draw(t, "min"), rapid.IntRange(0, 20).Draw(t, "pat")),
		Maintainer:  "Verif Harness <verif@example.com>",
		Description: "generated package",
	}
}

var debCompressions = []string{"", "gzip", "xz", "zstd", "none"}
var rpmCompressions = []string{"", "gzip", "gzip:1", "gzip:9", "xz", "lzma", "zstd", "zstd:1", "zstd:19", "zstd:fastest"}

// genBuildCase is the generator shared by the payload properties.
func genBuildCase(t *rapid.T, o contentOpts) *BuildCase {
	c := &BuildCase{Meta: genBasicMeta(t)}
	c.DisableGlobbing = rapid.IntRange(0, 3).Draw(t, "disable_globbing") == 0
	if rapid.IntRange(0, 2).Draw(t, "umask?") == 0 {
		c.Umask = uint32(rapid.SampledFrom([]int{0o002, 0o022, 0o027, 0o077, 0o007, 0o133}).Draw(t, "umask"))
	}
	if rapid.IntRange(0, 3).Draw(t, "mtime?") != 0 {
		c.MTime = genMTime(t, "pkgmtime")
	}
	c.DebCompression = rapid.SampledFrom(debCompressions).Draw(t, "debcomp")
	c.RPMCompression = rapid.SampledFrom(rpmCompressions).Draw(t, "rpmcomp")
	c.RPMBuildHost = "buildhost.example"
	genContents(t, c, o)
	return c
}

// ---------- scripts ----------

var allScriptSlots = []string{"preinstall", "postinstall", "preremove", "postremove",
	"rpm.pretrans", "rpm.posttrans", "rpm.verify", "deb.rules", "deb.templates", "deb.config",
	"apk.preupgrade", "apk.postupgrade", "archlinux.preupgrade", "archlinux.postupgrade"}

// slotsOf lists the script slots a format can carry, with the name of the slot inside the package.
func slotsOf(format string) map[string]string {
	switch format {
	case "deb":
		return map[string]string{"preinstall": "preinst", "postinstall": "postinst", "preremove": "prerm", "postremove": "postrm",
			"deb.rules": "rules", "deb.templates": "templates", "deb.config": "config"}
	case "ipk":
		return map[string]string{"preinstall": "preinst", "postinstall": "postinst", "preremove": "prerm", "postremove": "postrm"}
	case "rpm":
		return map[string]string{"preinstall": "PREIN", "postinstall": "POSTIN", "preremove": "PREUN", "postremove": "POSTUN",
			"rpm.pretrans": "PRETRANS", "rpm.posttrans": "POSTTRANS", "rpm.verify": "VERIFYSCRIPT"}
	case "apk":
		return map[string]string{"preinstall": ".pre-install", "postinstall": ".post-install", "preremove": ".pre-deinstall", "postremove": ".post-deinstall",
			"apk.preupgrade": ".pre-upgrade", "apk.postupgrade": ".post-upgrade"}
	case "archlinux":
		return map[string]string{"preinstall": "pre_install", "postinstall": "post_install", "preremove": "pre_remove", "postremove": "post_remove",
			"archlinux.preupgrade": "pre_upgrade", "archlinux.postupgrade": "post_upgrade"}
	}
	return nil
}

func addScript(c *BuildCase, slot, text string, mtime int64) {
	if c.Scripts == nil {
		c.Scripts = map[string]string{}
	}
	rel := "scripts/" + strings.ReplaceAll(slot, ".", "_") + ".sh"
	c.Tree = append(c.Tree, FNode{Rel: rel, Kind: "file", Text: text, Mode: 0o755, MTime: mtime})
	c.Scripts[slot] = rel
}

// genSimpleScripts attaches a random subset of plain shell scripts (text, distinct per slot).
func genSimpleScripts(t *rapid.T, c *BuildCase) {
	if rapid.Bool().Draw(t, "scripts?") {
		return
	}
	for _, slot := range allScriptSlots {
		if rapid.IntRange(0, 3).Draw(t, "script."+slot) == 0 {
			txt := fmt.Sprintf("#!/bin/sh\necho %s\nexit 0\n", slot)
			if rapid.IntRange(0, 3).Draw(t, "script.block."+slot) == 0 {
				// pad to an exact multiple of the tar block size
				n := rapid.SampledFrom([]int{512, 1024, 2048}).Draw(t, "script.blocksize."+slot)
				txt += strings.Repeat("#", n-len(txt)-1) + "\n"
			}
			addScript(c, slot, txt, genMTime(t, "script.mtime."+slot))
		}
	}
}

// ---------- changelog ----------

type ChangeEntry struct {
	Semver   string
	Date     int64
	Packager string
	Notes    []string
}

func changelogEntries(n int) []ChangeEntry {
	all := []ChangeEntry{
		{"1.1.0-1", 1260309600, "Jane Packager <jane@example.com>", []string{"note one", "second note"}},
		{"1.0.0-1", 1257894000, "Jane Packager <jane@example.com>", []string{"initial release"}},
		{"0.9.0", 1250000000, "Bob <bob@example.com>", []string{"beta"}},
	}
	return all[:n]
}

// addChangelog attaches a chglog YAML file with n (0..3) entries.
func addChangelog(c *BuildCase, n int) {
	var b strings.Builder
	for _, e := range changelogEntries(n) {
		fmt.Fprintf(&b, "- semver: %q\n  date: %q\n  packager: %q\n  changes:\n", e.Semver, ts(e.Date), e.Packager)
		for _, nt := range e.Notes {
			fmt.Fprintf(&b, "    - note: %q\n", nt)
		}
	}
	if n == 0 {
		b.WriteString("[]\n")
	}
	c.Tree = append(c.Tree, FNode{Rel: "meta/changelog.yaml", Kind: "file", Text: b.String(), Mode: 0o644, MTime: 1000000000})
	c.Changelog = "meta/changelog.yaml"
}
