package props

import (
	"errors"
	"fmt"
	"os"
	"path"
	"path/filepath"
	"sort"
	"strings"
	"testing"
	"time"

	"github.com/goreleaser/nfpm/v2/files"
	"pgregory.net/rapid"
)

// PlanCase is the input of files.PrepareForPackager in plain data.
type PlanCase struct {
	Tree            []FNode `json:"tree"`
	Contents        []Entry `json:"contents"`
	Packager        string  `json:"packager"`
	DisableGlobbing bool    `json:"disable_globbing,omitempty"`
}

func (pc *PlanCase) buildCase() *BuildCase {
	return &BuildCase{Tree: pc.Tree, Contents: pc.Contents, DisableGlobbing: pc.DisableGlobbing, MTime: 1000000000}
}

func toContents(root string, es []Entry) files.Contents {
	var out files.Contents
	for _, e := range es {
		c := &files.Content{Destination: e.Dst, Type: e.Type, Packager: e.Packager}
		if e.Src != "" {
			if e.srcOnDisk() {
				c.Source = filepath.Join(root, e.Src)
				if strings.HasSuffix(e.Src, "/") {
					c.Source += "/"
				}
			} else {
				c.Source = e.Src
			}
		}
		if e.FI != nil {
			c.FileInfo = &files.ContentFileInfo{Owner: e.FI.Owner, Group: e.FI.Group, Mode: os.FileMode(e.FI.Mode)}
			if e.FI.MTime != 0 {
				c.FileInfo.MTime = time.Unix(e.FI.MTime, 0)
			}
		}
		out = append(out, c)
	}
	return out
}

type planItem struct {
	Dst, Type, Src string
}

func prepared(root string, pc *PlanCase, es []Entry) (items []planItem, raw []string, err error) {
	defer func() {
		if r := recover(); r != nil {
			err = fmt.Errorf("PANIC in PrepareForPackager: %v", r)
		}
	}()
	res, err := files.PrepareForPackager(toContents(root, es), 0o002, pc.Packager, pc.DisableGlobbing, time.Unix(1000000000, 0))
	if err != nil {
		return nil, nil, err
	}
	for _, c := range res {
		items = append(items, planItem{Dst: c.Destination, Type: c.Type, Src: c.Source})
		raw = append(raw, c.Destination)
	}
	return items, raw, nil
}

// sameTypeFor compares entry types as far as they mean something to packager f: noreplace and missingok are rpm
// notions (C08 states what each format must do with them), so outside rpm - and for the packager-neutral plan -
// every config variant is one type, and "" is the plain file type.
func sameTypeFor(f, got, want string) bool {
	norm := func(t string) string {
		if t == "" {
			return "file"
		}
		if f != "rpm" && strings.HasPrefix(t, "config") {
			return "config"
		}
		return t
	}
	return norm(got) == norm(want)
}

func expectedType(n *ExpNode) string {
	switch n.Kind {
	case "dir":
		if n.Implied {
			return "implicit dir"
		}
		return "dir"
	case "symlink":
		return "symlink"
	case "ghost":
		return "ghost"
	}
	if n.FromTree || n.EType == "" {
		return "file"
	}
	return n.EType
}

// modelPlan runs the reference planner for packager p ("" = entries relevant for any packager).
func modelPlan(pc *PlanCase) (map[string]*ExpNode, error) {
	bc := pc.buildCase()
	f := pc.Packager
	if f == "" {
		f = "*"
	}
	if f == "*" {
		// every entry is relevant: clear the tags on a copy and plan as rpm (which knows all types), keeping implied dirs
		cp := *bc
		cp.Contents = append([]Entry(nil), bc.Contents...)
		for i := range cp.Contents {
			cp.Contents[i].Packager = ""
		}
		return planKeepImplied(&cp, "rpm")
	}
	return planKeepImplied(bc, f)
}

// planKeepImplied is Plan without rpm's removal of implied directories (the content
// plan keeps them for every packager; only the rpm writer skips them).
func planKeepImplied(c *BuildCase, f string) (map[string]*ExpNode, error) {
	if f != "rpm" {
		return Plan(c, f)
	}
	// Plan(…,"rpm") drops implied dirs; recompute them
	nodes, err := Plan(c, "rpm")
	if err != nil {
		return nil, err
	}
	for _, p := range sortedKeys(nodes) {
		for d := path.Dir(p); d != "/" && d != "."; d = path.Dir(d) {
			if _, ok := nodes[d]; !ok {
				nodes[d] = &ExpNode{Path: d, Kind: "dir", Implied: true, Entry: -1}
			}
		}
	}
	return nodes, nil
}

func checkPlanOutput(root string, pc *PlanCase, items []planItem, want map[string]*ExpNode, vs *vlist) {
	f := pc.Packager
	seen := map[string]planItem{}
	dirsSeen := map[string]bool{"/": true}
	for _, it := range items {
		d := it.Dst
		if !strings.HasPrefix(d, "/") {
			vs.add("C05.dest-not-absolute", f, "destination %q is not absolute", d)
		}
		trim := strings.TrimSuffix(d, "/")
		if trim == "" {
			trim = "/"
		}
		if path.Clean(trim) != trim {
			vs.add("C05.dest-not-clean", f, "destination %q is not lexically clean", d)
		}
		isDir := it.Type == "dir" || it.Type == "implicit dir"
		if strings.HasSuffix(d, "/") != isDir && d != "/" {
			vs.add("C05.dest-slash", f, "destination %q of type %q: trailing slash does not match the type", d, it.Type)
		}
		key := path.Clean(trim)
		if prev, dup := seen[key]; dup {
			vs.add("C05.dest-duplicate", f, "two plan entries occupy %s: %s %q and %s %q", key, prev.Type, prev.Dst, it.Type, d)
		}
		seen[key] = it
		for a := path.Dir(key); a != "/" && a != "."; a = path.Dir(a) {
			if !dirsSeen[a] {
				vs.add("C05.ancestor-missing-before", f, "%s appears before (or without) its ancestor directory %s", key, a)
				break
			}
		}
		if isDir {
			dirsSeen[key] = true
		}
	}
	for _, p := range sortedKeys(want) {
		n := want[p]
		it, ok := seen[p]
		if !ok {
			vs.add("C05.plan-missing", f, "%s (%s, entry %d) is missing from the plan", p, expectedType(n), n.Entry)
			continue
		}
		if !sameTypeFor(f, it.Type, expectedType(n)) {
			vs.add("C05.plan-type", f, "%s has type %q, expected %q", p, it.Type, expectedType(n))
		}
		switch n.Kind {
		case "file":
			if want := filepath.Join(root, n.SrcRel); it.Src != want {
				vs.add("C05.plan-source", f, "%s comes from %q, expected %q", p, it.Src, want)
			}
		case "symlink":
			if path.Clean(it.Src) != path.Clean(n.Target) {
				vs.add("C05.plan-source", f, "symlink %s points to %q, expected %q", p, it.Src, n.Target)
			}
		}
	}
	for _, p := range sortedKeys(seen) {
		if _, ok := want[p]; !ok {
			vs.add("C05.plan-extra", f, "%s (%s) is in the plan but not denoted by the contents for this packager", p, seen[p].Type)
		}
	}
}

func permutations(n int) [][]int {
	if n == 0 {
		return [][]int{{}}
	}
	var out [][]int
	var rec func(cur []int, used []bool)
	rec = func(cur []int, used []bool) {
		if len(cur) == n {
			out = append(out, append([]int(nil), cur...))
			return
		}
		for i := 0; i < n; i++ {
			if !used[i] {
				used[i] = true
				rec(append(cur, i), used)
				used[i] = false
			}
		}
	}
	rec(nil, make([]bool, n))
	return out
}

// checkC05 compares PrepareForPackager with the reference planner on the list and on
// permutations of it (perms == nil: identity only).
func checkC05(root string, pc *PlanCase, perms [][]int) []Violation {
	var vs vlist
	f := pc.Packager
	want, werr := modelPlan(pc)
	var pe *PlanError
	wantCollision := false
	if werr != nil {
		if errors.As(werr, &pe) && pe.Collision {
			wantCollision = true
		} else {
			panic(fmt.Sprintf("unsound case: %v", werr))
		}
	}
	if perms == nil {
		perms = [][]int{identity(len(pc.Contents))}
	}
	var first []string
	for pi, perm := range perms {
		es := make([]Entry, len(perm))
		for i, j := range perm {
			es[i] = pc.Contents[j]
		}
		items, raw, err := prepared(root, pc, es)
		switch {
		case err != nil && strings.HasPrefix(err.Error(), "PANIC"):
			vs.add("C05.panic", f, "order %v: %v", perm, err)
		case wantCollision && err == nil:
			vs.add("C05.collision-accepted", f, "order %v: preparation succeeded although %s", perm, pe.Msg)
		case wantCollision && !errors.Is(err, files.ErrContentCollision):
			vs.add("C05.collision-wrong-error", f, "order %v: error %q is not the content-collision error (%s)", perm, err, pe.Msg)
		case !wantCollision && err != nil:
			vs.add("C05.spurious-error", f, "order %v: collision-free list rejected: %v", perm, err)
		case !wantCollision:
			if pi == 0 {
				checkPlanOutput(root, pc, items, want, &vs)
				first = raw
				// map-iteration independence: repeat
				for k := 0; k < 5; k++ {
					_, again, err := prepared(root, pc, es)
					if err != nil || strings.Join(again, "\x00") != strings.Join(first, "\x00") {
						vs.add("C05.nondeterministic", f, "repeated preparation gave %q then %q (err %v)", first, again, err)
						break
					}
				}
			} else if strings.Join(raw, "\x00") != strings.Join(first, "\x00") {
				vs.add("C05.order-dependent", f, "order %v yields plan %q, order %v yields %q", perms[0], first, perm, raw)
			}
		}
		if len(vs) > 0 {
			break
		}
	}
	return vs
}

// replayPerms: the orders a saved case is replayed in - every order of up to four entries, otherwise the given
// order, its reverse and every rotation (always the complete list).
func replayPerms(n int) [][]int {
	if n <= 4 {
		return permutations(n)
	}
	id := identity(n)
	out := [][]int{id}
	rev := make([]int, n)
	for i := range rev {
		rev[i] = n - 1 - i
	}
	out = append(out, rev)
	for r := 1; r < n; r++ {
		out = append(out, append(append([]int(nil), id[r:]...), id[:r]...))
	}
	return out
}

func identity(n int) []int {
	p := make([]int, n)
	for i := range p {
		p[i] = i
	}
	return p
}

// ---------- fixed universe for the bounded-exhaustive part ----------

var c05Tree = []FNode{
	{Rel: "src", Kind: "dir", Mode: 0o755, MTime: 900000000},
	{Rel: "src/one", Kind: "file", Size: 3, Seed: 1, Mode: 0o644, MTime: 900000000},
	{Rel: "src/tr", Kind: "dir", Mode: 0o755, MTime: 900000000},
	{Rel: "src/tr/b", Kind: "file", Size: 4, Seed: 2, Mode: 0o644, MTime: 900000000},
	{Rel: "src/tr/d", Kind: "dir", Mode: 0o755, MTime: 900000000},
	{Rel: "src/tr/d/e", Kind: "file", Size: 5, Seed: 3, Mode: 0o600, MTime: 900000000},
}

var c05Dsts = []string{"/a", "/a/", "/a/b", "/a/b/c", "a/b", "/a/../a/b"}
var c05Types = []string{"file", "config", "dir", "symlink", "ghost", "tree"}
var c05Tags = []string{"", "deb", "rpm"}
var c05Packagers = []string{"deb", "rpm", "apk", ""}

func universe() []Entry {
	var out []Entry
	for _, d := range c05Dsts {
		for _, t := range c05Types {
			for _, tag := range c05Tags {
				e := Entry{Dst: d, Type: t, Packager: tag, Form: "none"}
				switch t {
				case "file", "config":
					e.Src, e.Form = "src/one", "single"
				case "tree":
					e.Src, e.Form = "src/tr", "tree"
				case "symlink":
					e.Src = "/target"
				}
				out = append(out, e)
			}
		}
	}
	return out
}

func collisionClass(pc *PlanCase) string {
	_, err := modelPlan(pc)
	var pe *PlanError
	if errors.As(err, &pe) && pe.Collision {
		if strings.Contains(pe.Msg, "beneath") {
			return "beneath-nondir"
		}
		return "same-destination"
	}
	return "no-collision"
}

func TestC05(t *testing.T) {
	st := newStats("C05")
	defer st.Flush()
	root, err := os.MkdirTemp(scratchBase(), "c05")
	if err != nil {
		t.Fatal(err)
	}
	defer os.RemoveAll(root)
	root, _ = filepath.EvalSymlinks(root)
	if err := Materialize(root, c05Tree); err != nil {
		t.Fatal(err)
	}
	var rc PlanCase
	if replayCase(&rc) {
		r2, _ := os.MkdirTemp(scratchBase(), "c05r")
		defer os.RemoveAll(r2)
		r2, _ = filepath.EvalSymlinks(r2)
		if err := Materialize(r2, rc.Tree); err != nil {
			t.Fatal(err)
		}
		st.Record(&rc, true, "replay")
		st.Report(t, &rc, checkC05(r2, &rc, replayPerms(len(rc.Contents))))
		return
	}
	u := universe()
	// (a) bounded-exhaustive: all singles and pairs (quick), all triples (thorough, sharded)
	n := 0
	var collected vlist
	run := func(es []Entry) {
		for _, p := range c05Packagers {
			pc := &PlanCase{Tree: c05Tree, Contents: es, Packager: p}
			cls := collisionClass(pc)
			nontrivial := cls != "no-collision" || hasNonCanonical(es)
			st.Record(pc, nontrivial, "exhaustive", "class:"+cls)
			n++
			vs := st.Filter(checkC05(root, pc, permutations(len(es))))
			if len(vs) > 0 && os.Getenv("VERIF_SURVEY") != "" {
				key := vs[0].Clause + " | " + surveyKey(es)
				if survey[key] == 0 {
					fmt.Printf("SURVEY %s | %s | %s\n", p, key, vs[0].Detail)
				}
				survey[key]++
				continue
			}
			if len(vs) > 0 && len(collected) < 1 {
				collected = append(collected, vs...)
				st.saveReplay(pc, vs)
			}
		}
	}
	for i := range u {
		run([]Entry{u[i]})
		for j := i; j < len(u); j++ {
			run([]Entry{u[i], u[j]})
		}
	}
	st.Exhaustive["content lists of <=2 entries x 4 packagers (all orders)"] = n
	if thorough() {
		sh, shards := shard()
		m := 0
		k := 0
		for i := range u {
			for j := i; j < len(u); j++ {
				for l := j; l < len(u); l++ {
					k++
					if k%shards != sh {
						continue
					}
					before := n
					run([]Entry{u[i], u[j], u[l]})
					m += n - before
				}
			}
		}
		st.Exhaustive["content lists of 3 entries x 4 packagers (all orders), this shard"] = m
	}
	if len(collected) > 0 {
		t.Fatalf("property C05 violated in the exhaustive universe: %v", collected[0])
	}
	// (c) destination spellings
	spellings(t, st, root)
	// (b) random lists with globs and trees, with injected collisions
	rapid.Check(t, func(rt *rapid.T) {
		bc := genBuildCase(rt, c01Opts)
		pc := &PlanCase{Tree: bc.Tree, Contents: bc.Contents, DisableGlobbing: bc.DisableGlobbing,
			Packager: rapid.SampledFrom([]string{"deb", "rpm", "apk", "archlinux", "ipk", ""}).Draw(rt, "packager")}
		inject := rapid.IntRange(0, 2).Draw(rt, "inject")
		if inject > 0 {
			if plan, err := Plan(bc, "rpm"); err == nil && len(plan) > 0 {
				keys := sortedKeys(plan)
				p := rapid.SampledFrom(keys).Draw(rt, "victim")
				typ := rapid.SampledFrom([]string{"file", "dir", "symlink", "ghost", "config"}).Draw(rt, "injtype")
				e := Entry{Type: typ, Form: "none"}
				switch rapid.IntRange(0, 2).Draw(rt, "injwhere") {
				case 0:
					e.Dst = p
				case 1:
					e.Dst = p + "/below"
				case 2:
					e.Dst = path.Dir(p)
				}
				if e.Dst == "/" {
					e.Dst = p
				}
				if rapid.Bool().Draw(rt, "injslash") {
					e.Dst += "/"
				}
				switch typ {
				case "file", "config":
					pc.Tree = append(pc.Tree, FNode{Rel: "src/inj", Kind: "file", Size: 7, Seed: 77, Mode: 0o644, MTime: 900000000})
					e.Src, e.Form = "src/inj", "single"
				case "symlink":
					e.Src = "/t"
				}
				pos := rapid.IntRange(0, len(pc.Contents)).Draw(rt, "injpos")
				pc.Contents = append(pc.Contents[:pos:pos], append([]Entry{e}, pc.Contents[pos:]...)...)
			}
		}
		if rapid.IntRange(0, 5).Draw(rt, "flatdup") == 0 {
			// one entry whose matches land on the same destination: two files with the same base name flattened into dst/
			same := rapid.Bool().Draw(rt, "flatdup.same")
			b2 := "same.conf"
			if !same {
				b2 = "other.conf"
			}
			pc.Tree = append(pc.Tree,
				FNode{Rel: "src/fd", Kind: "dir", Mode: 0o755, MTime: 900000000},
				FNode{Rel: "src/fd/eu", Kind: "dir", Mode: 0o755, MTime: 900000000},
				FNode{Rel: "src/fd/us", Kind: "dir", Mode: 0o755, MTime: 900000000},
				FNode{Rel: "src/fd/eu/same.conf", Kind: "file", Size: 3, Seed: 21, Mode: 0o644, MTime: 900000000},
				FNode{Rel: "src/fd/us/" + b2, Kind: "file", Size: 4, Seed: 22, Mode: 0o644, MTime: 900000000})
			src := rapid.SampledFrom([]string{"src/fd", "src/fd/", "src/fd/*", "src/fd/**/*.conf"}).Draw(rt, "flatdup.src")
			if pc.DisableGlobbing {
				src = "src/fd"
			}
			pc.Contents = append(pc.Contents, Entry{Src: src, Dst: "/etc/flatdup/", Type: rapid.SampledFrom([]string{"", "config"}).Draw(rt, "flatdup.type"), Form: "flat"})
		}
		r2, err := os.MkdirTemp(scratchBase(), "c05g")
		if err != nil {
			rt.Fatalf("%v", err)
		}
		defer os.RemoveAll(r2)
		r2, _ = filepath.EvalSymlinks(r2)
		if err := Materialize(r2, pc.Tree); err != nil {
			rt.Fatalf("%v", err)
		}
		var perms [][]int
		perms = append(perms, identity(len(pc.Contents)))
		for k := 0; k < 2; k++ {
			perms = append(perms, rapid.Permutation(identity(len(pc.Contents))).Draw(rt, fmt.Sprintf("perm%d", k)))
		}
		cls := collisionClass(pc)
		multi := false
		ti := indexTree(pc.Tree)
		for _, e := range pc.Contents {
			if e.isFileLike() {
				if ms, _, _ := ti.expandSource(e.Src, pc.DisableGlobbing); len(ms) >= 2 {
					multi = true
				}
			}
		}
		st.Record(pc, cls != "no-collision" || multi || hasNonCanonical(pc.Contents), "random", "class:"+cls, fmt.Sprintf("inject:%d", inject))
		st.Report(rt, pc, checkC05(r2, pc, perms))
	})
}

// climbsAboveRoot: some prefix of the path has more ".." than named segments. Such a
// destination does not name a location inside the package and is outside the domain.
func climbsAboveRoot(p string) bool {
	depth := 0
	for _, seg := range strings.Split(p, "/") {
		switch seg {
		case "", ".":
		case "..":
			depth--
			if depth < 0 {
				return true
			}
		default:
			depth++
		}
	}
	return false
}

var survey = map[string]int{}

func surveyKey(es []Entry) string {
	var parts []string
	for _, e := range es {
		parts = append(parts, e.Type+"@"+e.Dst)
	}
	return strings.Join(parts, " + ")
}

func hasNonCanonical(es []Entry) bool {
	for _, e := range es {
		if cleanAbs(e.Dst) != e.Dst {
			return true
		}
	}
	return false
}

// spellings enumerates destination strings over a small alphabet.
func spellings(t *testing.T, st *Stats, root string) {
	alphabet := []string{"/", ".", "..", "a", "b", " "}
	maxLen := 5
	if thorough() {
		maxLen = 7
	}
	sh, shards := shard()
	n, k := 0, 0
	var collected vlist
	var rec func(cur []string)
	rec = func(cur []string) {
		if len(cur) > 0 {
			k++
			if k%shards == sh {
				s := strings.Join(cur, "")
				for _, typ := range []string{"file", "dir", "symlink"} {
					clean := path.Clean("/" + s)
					if clean == "/" {
						st.Exclude("spelling denotes the root directory")
						continue
					}
					if climbsAboveRoot(s) {
						st.Exclude("spelling climbs above the root with ..")
						continue
					}
					if typ == "file" && strings.HasSuffix(s, "/") {
						// into-directory form: lands at clean/one
					}
					e := Entry{Dst: s, Type: typ, Form: "none"}
					if typ == "file" {
						e.Src, e.Form = "src/one", "single"
					}
					if typ == "symlink" {
						e.Src = "/t"
					}
					pc := &PlanCase{Tree: c05Tree, Contents: []Entry{e, {Src: "src/one", Dst: "/zz/other", Type: "file", Form: "single"}}, Packager: "deb"}
					st.Record(pc, clean != s, "spelling")
					n++
					vs := st.Filter(checkC05(root, pc, nil))
					if len(vs) > 0 && len(collected) == 0 {
						collected = append(collected, vs...)
						st.saveReplay(pc, vs)
					}
				}
			}
		}
		if len(cur) == maxLen {
			return
		}
		for _, a := range alphabet {
			if len(cur) > 0 && (a == "." || a == "..") && cur[len(cur)-1] != "/" {
				continue // "a.." is just a file name; only whole-segment dots are interesting
			}
			if len(cur) > 0 && (cur[len(cur)-1] == "." || cur[len(cur)-1] == "..") && a != "/" {
				continue
			}
			rec(append(cur, a))
		}
	}
	rec(nil)
	st.Exhaustive[fmt.Sprintf("destination spellings over {/ . .. a b space} up to %d tokens x 3 types (this shard)", maxLen)] = n
	if len(collected) > 0 {
		t.Fatalf("property C05 violated by a destination spelling: %v", collected[0])
	}
}

var _ = sort.Strings
