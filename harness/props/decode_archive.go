package props

// Harness-owned readers for the container formats nfpm writes. None of this code
// is shared with the writers' call sites: ar, rpm lead/header and cpio-newc are
// parsed by hand; tar and gzip use the stdlib *readers*; xz/lzma/zstd use the
// decoders of the libraries (reader code paths only).

import (
	"archive/tar"
	"bytes"
	"compress/gzip"
	"encoding/binary"
	"errors"
	"fmt"
	"io"
	"strconv"
	"strings"

	"github.com/klauspost/compress/zstd"
	"github.com/ulikunitz/xz"
	"github.com/ulikunitz/xz/lzma"
)

// ---------- ar ----------

type ArMember struct {
	Name  string
	MTime int64
	UID   int
	GID   int
	Mode  int64
	Data  []byte
}

// ParseAr parses a System V / GNU style ar archive as used by deb.
func ParseAr(b []byte) ([]ArMember, error) {
	const magic = "!<arch>\n"
	if len(b) < len(magic) || string(b[:len(magic)]) != magic {
		return nil, errors.New("ar: bad global magic")
	}
	off := len(magic)
	var out []ArMember
	for off < len(b) {
		if len(b)-off < 60 {
			return nil, fmt.Errorf("ar: truncated header at %d", off)
		}
		h := b[off : off+60]
		if h[58] != '`' || h[59] != '\n' {
			return nil, fmt.Errorf("ar: bad header terminator at %d", off)
		}
		field := func(a, z int) string { return strings.TrimRight(string(h[a:z]), " ") }
		name := field(0, 16)
		name = strings.TrimSuffix(name, "/")
		mt, err := strconv.ParseInt(field(16, 28), 10, 64)
		if err != nil {
			return nil, fmt.Errorf("ar: bad mtime %q", field(16, 28))
		}
		uid, _ := strconv.Atoi(field(28, 34))
		gid, _ := strconv.Atoi(field(34, 40))
		mode, err := strconv.ParseInt(field(40, 48), 8, 64)
		if err != nil {
			return nil, fmt.Errorf("ar: bad mode %q", field(40, 48))
		}
		size, err := strconv.ParseInt(field(48, 58), 10, 64)
		if err != nil || size < 0 {
			return nil, fmt.Errorf("ar: bad size %q", field(48, 58))
		}
		off += 60
		if int64(len(b)-off) < size {
			return nil, fmt.Errorf("ar: member %q truncated (%d of %d bytes)", name, len(b)-off, size)
		}
		data := b[off : off+int(size)]
		off += int(size)
		if size%2 == 1 {
			if off >= len(b) {
				return nil, fmt.Errorf("ar: missing padding after %q", name)
			}
			if b[off] != '\n' {
				return nil, fmt.Errorf("ar: bad padding byte after %q", name)
			}
			off++
		}
		out = append(out, ArMember{Name: name, MTime: mt, UID: uid, GID: gid, Mode: mode, Data: data})
	}
	return out, nil
}

// ---------- tar ----------

type TarEntry struct {
	Name     string
	Typeflag byte
	Mode     int64
	Uname    string
	Gname    string
	UID      int
	GID      int
	MTime    int64
	ATime    int64
	CTime    int64
	Size     int64
	Linkname string
	PAX      map[string]string
	Data     []byte
	Format   string
	RawMode  string // octal text of the mode field in the raw header block
}

// ParseTar reads a complete tar stream. If requireEOF is set, the archive must
// be terminated by the two zero blocks.
func ParseTar(b []byte) ([]TarEntry, error) {
	tr := tar.NewReader(bytes.NewReader(b))
	var out []TarEntry
	for {
		h, err := tr.Next()
		if err == io.EOF {
			break
		}
		if err != nil {
			return out, fmt.Errorf("tar: entry %d: %w", len(out), err)
		}
		data, err := io.ReadAll(tr)
		if err != nil {
			return out, fmt.Errorf("tar: reading %q: %w", h.Name, err)
		}
		e := TarEntry{
			Name: h.Name, Typeflag: h.Typeflag, Mode: h.Mode, Uname: h.Uname, Gname: h.Gname,
			UID: h.Uid, GID: h.Gid, MTime: h.ModTime.Unix(), Size: h.Size, Linkname: h.Linkname,
			PAX: h.PAXRecords, Data: data, Format: h.Format.String(),
		}
		if !h.AccessTime.IsZero() {
			e.ATime = h.AccessTime.Unix()
		}
		if !h.ChangeTime.IsZero() {
			e.CTime = h.ChangeTime.Unix()
		}
		out = append(out, e)
	}
	return out, nil
}

// RawTarModes walks the raw 512-byte blocks of a tar stream and returns, for each
// non-extended header, the name field and numeric value of the mode field. It is
// used to see mode values that archive/tar's reader would happily accept even
// though they do not fit a plain permission field.
func RawTarModes(b []byte) []int64 {
	var modes []int64
	off := 0
	for off+512 <= len(b) {
		blk := b[off : off+512]
		if allZero(blk) {
			break
		}
		sizeField := strings.Trim(string(blk[124:136]), " \x00")
		var size int64
		if len(blk[124:136]) > 0 && blk[124]&0x80 != 0 {
			// base-256
			for _, c := range blk[125:136] {
				size = size<<8 | int64(c)
			}
		} else {
			size, _ = strconv.ParseInt(sizeField, 8, 64)
		}
		tf := blk[156]
		if tf != 'x' && tf != 'g' && tf != 'L' && tf != 'K' {
			var m int64
			if blk[100]&0x80 != 0 {
				for _, c := range blk[101:108] {
					m = m<<8 | int64(c)
				}
			} else {
				m, _ = strconv.ParseInt(strings.Trim(string(blk[100:108]), " \x00"), 8, 64)
			}
			modes = append(modes, m)
		}
		off += 512 + int((size+511)/512*512)
	}
	return modes
}

func allZero(b []byte) bool {
	for _, c := range b {
		if c != 0 {
			return false
		}
	}
	return true
}

// TarHasEOFMarker reports whether the stream ends with at least two zero blocks.
func TarHasEOFMarker(b []byte) bool {
	if len(b) < 1024 {
		return false
	}
	return allZero(b[len(b)-1024:])
}

// ---------- gzip ----------

type GzipMember struct {
	Raw     []byte // compressed bytes of this member exactly as stored
	Data    []byte // decompressed
	MTime   int64  // MTIME header field (0 = not set)
	Name    string
	Comment string
	OS      byte
}

// SplitGzipMembers splits a concatenation of gzip members at exact boundaries.
func SplitGzipMembers(b []byte) ([]GzipMember, error) {
	var out []GzipMember
	off := 0
	for off < len(b) {
		br := bytes.NewReader(b[off:])
		zr, err := gzip.NewReader(br)
		if err != nil {
			return out, fmt.Errorf("gzip: member %d at %d: %w", len(out), off, err)
		}
		zr.Multistream(false)
		data, err := io.ReadAll(zr)
		if err != nil {
			return out, fmt.Errorf("gzip: member %d: %w", len(out), err)
		}
		consumed := len(b[off:]) - br.Len()
		m := GzipMember{Raw: b[off : off+consumed], Data: data, Name: zr.Name, Comment: zr.Comment, OS: zr.OS}
		if !zr.ModTime.IsZero() {
			m.MTime = zr.ModTime.Unix()
		}
		// raw MTIME field (bytes 4..8), independent of the library's view
		if consumed >= 10 {
			raw := binary.LittleEndian.Uint32(b[off+4 : off+8])
			m.MTime = int64(raw)
		}
		out = append(out, m)
		off += consumed
	}
	return out, nil
}

// Gunzip decompresses a gzip stream that may consist of several members and
// returns the concatenated data together with the members.
func Gunzip(b []byte) ([]byte, []GzipMember, error) {
	ms, err := SplitGzipMembers(b)
	if err != nil {
		return nil, ms, err
	}
	var all []byte
	for _, m := range ms {
		all = append(all, m.Data...)
	}
	return all, ms, nil
}

// ---------- other compressors ----------

func Unxz(b []byte) ([]byte, error) {
	r, err := xz.NewReader(bytes.NewReader(b))
	if err != nil {
		return nil, err
	}
	return io.ReadAll(r)
}

func Unlzma(b []byte) ([]byte, error) {
	r, err := lzma.NewReader(bytes.NewReader(b))
	if err != nil {
		return nil, err
	}
	return io.ReadAll(r)
}

func Unzstd(b []byte) ([]byte, error) {
	d, err := zstd.NewReader(bytes.NewReader(b))
	if err != nil {
		return nil, err
	}
	defer d.Close()
	return io.ReadAll(d)
}

// ---------- cpio newc ----------

type CpioEntry struct {
	Name  string
	Mode  uint32
	UID   uint32
	GID   uint32
	Nlink uint32
	MTime uint32
	Size  uint32
	Ino   uint32
	Data  []byte
}

// ParseCpioNewc parses an SVR4 "newc" cpio archive; it requires the TRAILER!!! record.
func ParseCpioNewc(b []byte) ([]CpioEntry, error) {
	off := 0
	var out []CpioEntry
	for {
		if len(b)-off < 110 {
			return out, fmt.Errorf("cpio: truncated header at %d", off)
		}
		h := b[off : off+110]
		if string(h[:6]) != "070701" && string(h[:6]) != "070702" {
			return out, fmt.Errorf("cpio: bad magic %q at %d", h[:6], off)
		}
		hex := func(i int) (uint32, error) {
			v, err := strconv.ParseUint(string(h[6+8*i:6+8*i+8]), 16, 32)
			return uint32(v), err
		}
		var f [13]uint32
		for i := range f {
			v, err := hex(i)
			if err != nil {
				return out, fmt.Errorf("cpio: bad field %d at %d", i, off)
			}
			f[i] = v
		}
		namesize := int(f[11])
		filesize := int(f[6])
		off += 110
		if len(b)-off < namesize {
			return out, errors.New("cpio: truncated name")
		}
		name := string(b[off : off+namesize])
		name = strings.TrimRight(name, "\x00")
		off += namesize
		off = (off + 3) &^ 3
		if len(b)-off < filesize {
			return out, fmt.Errorf("cpio: truncated data for %q", name)
		}
		data := b[off : off+filesize]
		off += filesize
		off = (off + 3) &^ 3
		if name == "TRAILER!!!" {
			return out, nil
		}
		out = append(out, CpioEntry{Name: name, Ino: f[0], Mode: f[1], UID: f[2], GID: f[3], Nlink: f[4], MTime: f[5], Size: f[6], Data: data})
	}
}

// ---------- rpm ----------

type RPMTagEntry struct {
	Tag    uint32
	Type   uint32
	Offset uint32
	Count  uint32
}

type RPMHeader struct {
	Raw     []byte // bytes of this header structure as shipped (magic .. end of store)
	Entries []RPMTagEntry
	Store   []byte
	byTag   map[uint32]RPMTagEntry
}

type RPMFile struct {
	Lead      []byte
	Sig       RPMHeader
	SigPad    int
	Hdr       RPMHeader
	Payload   []byte // compressed payload as shipped
	HdrOffset int
}

func parseRPMHeader(b []byte, off int) (RPMHeader, int, error) {
	var h RPMHeader
	if len(b)-off < 16 {
		return h, off, errors.New("rpm: truncated header intro")
	}
	if !bytes.Equal(b[off:off+4], []byte{0x8e, 0xad, 0xe8, 0x01}) {
		return h, off, fmt.Errorf("rpm: bad header magic % x at %d", b[off:off+4], off)
	}
	if !allZero(b[off+4 : off+8]) {
		return h, off, errors.New("rpm: reserved header bytes not zero")
	}
	n := int(binary.BigEndian.Uint32(b[off+8 : off+12]))
	hs := int(binary.BigEndian.Uint32(b[off+12 : off+16]))
	start := off
	off += 16
	if n < 0 || n > 1<<20 || hs < 0 || len(b)-off < n*16+hs {
		return h, off, errors.New("rpm: header exceeds file")
	}
	h.byTag = map[uint32]RPMTagEntry{}
	for i := 0; i < n; i++ {
		e := RPMTagEntry{
			Tag:    binary.BigEndian.Uint32(b[off : off+4]),
			Type:   binary.BigEndian.Uint32(b[off+4 : off+8]),
			Offset: binary.BigEndian.Uint32(b[off+8 : off+12]),
			Count:  binary.BigEndian.Uint32(b[off+12 : off+16]),
		}
		if int(e.Offset) > hs {
			return h, off, fmt.Errorf("rpm: tag %d offset %d beyond store %d", e.Tag, e.Offset, hs)
		}
		h.Entries = append(h.Entries, e)
		if _, dup := h.byTag[e.Tag]; dup {
			return h, off, fmt.Errorf("rpm: duplicate tag %d", e.Tag)
		}
		h.byTag[e.Tag] = e
		off += 16
	}
	h.Store = b[off : off+hs]
	off += hs
	h.Raw = b[start:off]
	return h, off, nil
}

func ParseRPM(b []byte) (*RPMFile, error) {
	if len(b) < 96 {
		return nil, errors.New("rpm: shorter than lead")
	}
	if !bytes.Equal(b[:4], []byte{0xed, 0xab, 0xee, 0xdb}) {
		return nil, errors.New("rpm: bad lead magic")
	}
	r := &RPMFile{Lead: b[:96]}
	sig, off, err := parseRPMHeader(b, 96)
	if err != nil {
		return nil, fmt.Errorf("signature header: %w", err)
	}
	r.Sig = sig
	pad := (8 - (off-96)%8) % 8
	if len(b)-off < pad {
		return nil, errors.New("rpm: truncated signature padding")
	}
	if !allZero(b[off : off+pad]) {
		return nil, errors.New("rpm: signature padding not zero")
	}
	r.SigPad = pad
	off += pad
	r.HdrOffset = off
	hdr, off, err := parseRPMHeader(b, off)
	if err != nil {
		return nil, fmt.Errorf("main header (at 8-aligned offset %d): %w", r.HdrOffset, err)
	}
	r.Hdr = hdr
	r.Payload = b[off:]
	return r, nil
}

func (h *RPMHeader) Has(tag uint32) bool { _, ok := h.byTag[tag]; return ok }

func (h *RPMHeader) Type(tag uint32) uint32 { return h.byTag[tag].Type }

func cstr(b []byte) (string, int, bool) {
	i := bytes.IndexByte(b, 0)
	if i < 0 {
		return "", 0, false
	}
	return string(b[:i]), i + 1, true
}

// Strings returns the value(s) of a STRING, I18NSTRING or STRING_ARRAY tag.
func (h *RPMHeader) Strings(tag uint32) ([]string, bool) {
	e, ok := h.byTag[tag]
	if !ok {
		return nil, false
	}
	if e.Type != 6 && e.Type != 8 && e.Type != 9 {
		return nil, false
	}
	p := h.Store[e.Offset:]
	var out []string
	for i := uint32(0); i < e.Count; i++ {
		s, n, ok := cstr(p)
		if !ok {
			return out, false
		}
		out = append(out, s)
		p = p[n:]
	}
	return out, true
}

func (h *RPMHeader) String(tag uint32) (string, bool) {
	s, ok := h.Strings(tag)
	if !ok || len(s) != 1 {
		return "", false
	}
	return s[0], true
}

// Ints returns the values of an INT8/16/32/64 tag widened to uint64.
func (h *RPMHeader) Ints(tag uint32) ([]uint64, bool) {
	e, ok := h.byTag[tag]
	if !ok {
		return nil, false
	}
	var w int
	switch e.Type {
	case 1, 2:
		w = 1
	case 3:
		w = 2
	case 4:
		w = 4
	case 5:
		w = 8
	default:
		return nil, false
	}
	if int(e.Offset)+w*int(e.Count) > len(h.Store) {
		return nil, false
	}
	p := h.Store[e.Offset:]
	out := make([]uint64, 0, e.Count)
	for i := 0; i < int(e.Count); i++ {
		switch w {
		case 1:
			out = append(out, uint64(p[i]))
		case 2:
			out = append(out, uint64(binary.BigEndian.Uint16(p[2*i:])))
		case 4:
			out = append(out, uint64(binary.BigEndian.Uint32(p[4*i:])))
		case 8:
			out = append(out, binary.BigEndian.Uint64(p[8*i:]))
		}
	}
	return out, true
}

func (h *RPMHeader) Bin(tag uint32) ([]byte, bool) {
	e, ok := h.byTag[tag]
	if !ok || e.Type != 7 {
		return nil, false
	}
	if int(e.Offset)+int(e.Count) > len(h.Store) {
		return nil, false
	}
	return h.Store[e.Offset : e.Offset+e.Count], true
}

// DecompressRPMPayload decompresses according to the PAYLOADCOMPRESSOR tag.
func (r *RPMFile) DecompressPayload() ([]byte, string, error) {
	comp, _ := r.Hdr.String(1125)
	switch comp {
	case "gzip", "":
		d, _, err := Gunzip(r.Payload)
		return d, comp, err
	case "xz":
		d, err := Unxz(r.Payload)
		return d, comp, err
	case "lzma":
		d, err := Unlzma(r.Payload)
		return d, comp, err
	case "zstd":
		d, err := Unzstd(r.Payload)
		return d, comp, err
	}
	return nil, comp, fmt.Errorf("rpm: unknown payload compressor %q", comp)
}
