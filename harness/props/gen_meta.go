package props

import (
	"fmt"
	"strings"

	"pgregory.net/rapid"
)

var docArches = []string{"all", "amd64", "386", "arm5", "arm6", "arm7", "arm64", "mips", "mipsle", "mips64le", "ppc64le", "s390"}

var descLines = []string{
	"A small tool", "Ünïcödé synopsis – with dash", "does things: many things", "second paragraph here", "line with trailing colon:",
	"日本語の説明", "x", "URL https://example.com/a?b=c#d", "Keep # hash and 'quotes' \"double\"", "tabs\tinside",
}

func genDescription(t *rapid.T) string {
	n := rapid.IntRange(1, 6).Draw(t, "desc.lines")
	var lines []string
	for i := 0; i < n; i++ {
		if i > 0 && i < n-1 && rapid.IntRange(0, 3).Draw(t, fmt.Sprintf("desc.blank%d", i)) == 0 {
			// paragraph separators: truly empty, or made of blanks only
			lines = append(lines, rapid.SampledFrom([]string{"", "", "  ", "\t", " \t "}).Draw(t, fmt.Sprintf("desc.sep%d", i)))
			continue
		}
		if i > 0 && rapid.IntRange(0, 11).Draw(t, fmt.Sprintf("desc.long%d", i)) == 0 {
			// one very long line of the extended description (a generated list of something): around and beyond the
			// 64 KiB default token limit of line-oriented readers
			n := rapid.SampledFrom([]int{4000, 65530, 65536, 70000}).Draw(t, fmt.Sprintf("desc.longlen%d", i))
			lines = append(lines, strings.TrimSpace(strings.Repeat("word ", n/5))+" end-of-long-line")
			continue
		}
		lines = append(lines, rapid.SampledFrom(descLines).Draw(t, fmt.Sprintf("desc.line%d", i)))
	}
	s := strings.Join(lines, "\n")
	if rapid.Bool().Draw(t, "desc.trailingnl") {
		s += "\n"
	}
	return s
}

type relCounter struct{ n int }

func (rc *relCounter) list(t *rapid.T, label string, max int) []string {
	n := rapid.IntRange(0, max).Draw(t, label+".n")
	var out []string
	for i := 0; i < n; i++ {
		rc.n++
		out = append(out, fmt.Sprintf("%s%d-%s", label[:3], rc.n, rapid.StringMatching(`[a-z][a-z0-9]{0,5}`).Draw(t, fmt.Sprintf("%s.%d", label, i))))
	}
	return out
}

var semverPre = rapid.StringMatching(`(alpha|beta|rc|pre)(\.(0|[1-9][0-9]?))?(-[a-z0-9]{1,3})?`)     // numeric identifiers without leading zeros
var semverMeta = rapid.StringMatching(`(git|build|p)?[0-9a-f]{1,6}(\.[0-9]{1,2})?(-[0-9a-z]{1,4})?`) // build metadata may contain hyphens

// genFullMeta draws identity, version parts, descriptive fields and relations.
func genFullMeta(t *rapid.T, c *BuildCase) {
	m := &c.Meta
	m.Name = pkgName.Draw(t, "name")
	m.Arch = rapid.SampledFrom(docArches).Draw(t, "arch")
	m.Version = fmt.Sprintf("%d.%d.%d", rapid.IntRange(0, 30).Draw(t, "maj"), rapid.IntRange(0, 30).Draw(t, "min"), rapid.IntRange(0, 30).Draw(t, "pat"))
	if rapid.Bool().Draw(t, "epoch?") {
		m.Epoch = fmt.Sprint(rapid.IntRange(0, 9).Draw(t, "epoch"))
	}
	if rapid.Bool().Draw(t, "pre?") {
		m.Prerelease = semverPre.Draw(t, "pre")
	}
	if rapid.Bool().Draw(t, "meta?") {
		m.VersionMetadata = semverMeta.Draw(t, "meta")
	}
	// version components may live inside the version string instead of their own keys
	m.EmbedPre = m.Prerelease != "" && rapid.IntRange(0, 2).Draw(t, "embedpre") == 0
	m.EmbedMeta = m.VersionMetadata != "" && rapid.IntRange(0, 2).Draw(t, "embedmeta") == 0
	m.VPrefix = rapid.IntRange(0, 4).Draw(t, "vprefix") == 0
	m.PlainNumbers = rapid.Bool().Draw(t, "plain-numbers")
	if rapid.Bool().Draw(t, "release?") {
		m.Release = fmt.Sprint(rapid.IntRange(1, 12).Draw(t, "release"))
	}
	if rapid.IntRange(0, 4).Draw(t, "platform?") == 0 {
		m.Platform = "linux"
	}
	opt := func(label string, vals ...string) string {
		if rapid.Bool().Draw(t, label+"?") {
			return rapid.SampledFrom(vals).Draw(t, label)
		}
		return ""
	}
	m.Maintainer = rapid.SampledFrom([]string{"Jane Doe <jane@example.com>", "Ünï Çode <u@example.org>", "ops@example.net"}).Draw(t, "maintainer")
	m.Vendor = opt("vendor", "ACME Corp", "Ünï GmbH", "v")
	m.Homepage = opt("homepage", "https://example.com", "https://example.org/path?q=1")
	m.License = opt("license", "MIT", "Apache-2.0", "GPL-2.0-or-later WITH exception")
	m.Section = opt("section", "utils", "net", "default")
	m.Priority = opt("priority", "extra", "optional", "required")
	// single-line values written as YAML block scalars (`maintainer: >`) keep a trailing line break
	if rapid.IntRange(0, 5).Draw(t, "blockscalar?") == 0 {
		switch rapid.IntRange(0, 3).Draw(t, "blockscalar.field") {
		case 0:
			m.Maintainer += "\n"
		case 1:
			if m.Homepage != "" {
				m.Homepage += "\n"
			}
		case 2:
			if m.License != "" {
				m.License += "\n"
			}
		case 3:
			if m.Section != "" {
				m.Section += "\n"
			}
		}
	}
	m.Description = genDescription(t)
	rc := &relCounter{}
	m.Replaces = rc.list(t, "replaces", 3)
	m.Provides = rc.list(t, "provides", 3)
	m.Depends = rc.list(t, "depends", 4)
	m.Recommends = rc.list(t, "recommends", 3)
	m.Suggests = rc.list(t, "suggests", 3)
	m.Conflicts = rc.list(t, "conflicts", 3)
	// the same name under several relations (the usual rename pattern: replaces + conflicts + provides)
	if len(m.Replaces) > 0 && rapid.IntRange(0, 3).Draw(t, "rename-pattern") == 0 {
		m.Conflicts = append(m.Conflicts, m.Replaces[0])
		m.Provides = append(m.Provides, m.Replaces[0])
	}
	c.Constraints = rapid.Bool().Draw(t, "constraints")
	x := &Extras{}
	c.X = x
	if rapid.IntRange(0, 2).Draw(t, "x.deb") != 0 {
		x.DebBreaks = rc.list(t, "breaks", 2)
		x.DebPredepends = rc.list(t, "predepends", 2)
		if rapid.Bool().Draw(t, "deb.fields?") {
			x.DebFields = map[string]string{}
			for _, k := range []string{"Bugs", "Vcs-Browser", "X-Custom-Field", "Built-Using"} {
				switch rapid.IntRange(0, 3).Draw(t, "deb.field."+k) {
				case 0:
					x.DebFields[k] = "value of " + k
				case 1:
					x.DebFields[k] = "" // empty fields are ignored
				}
			}
		}
		if rapid.Bool().Draw(t, "deb.triggers?") {
			x.DebTriggers = map[string][]string{}
			for _, k := range []string{"interest", "interest_await", "interest_noawait", "activate", "activate_await", "activate_noawait"} {
				if rapid.IntRange(0, 2).Draw(t, "deb.trigger."+k) == 0 {
					x.DebTriggers[k] = []string{"trig-" + k, "/usr/share/trig-" + k}[:rapid.IntRange(1, 2).Draw(t, "deb.trigger.n."+k)]
				}
			}
		}
	}
	if rapid.IntRange(0, 2).Draw(t, "x.rpm") != 0 {
		x.RPMGroup = opt("rpm.group", "Unspecified", "System/Tools")
		x.RPMSummary = opt("rpm.summary", "Explicit summary", "Ünï summary")
		x.RPMPackager = opt("rpm.packager", "Pack Ager <p@example.com>")
		if rapid.Bool().Draw(t, "rpm.prefixes?") {
			x.RPMPrefixes = []string{"/usr", "/opt/app"}[:rapid.IntRange(1, 2).Draw(t, "rpm.prefixes.n")]
		}
	}
	if rapid.IntRange(0, 2).Draw(t, "x.ipk") != 0 {
		x.IPKABI = opt("ipk.abi", "1", "2.1")
		x.IPKPredepends = rc.list(t, "ipkpredepends", 2)
		if rapid.Bool().Draw(t, "ipk.tags?") {
			x.IPKTags = []string{"tag-a", "tag-b", "role::program"}[:rapid.IntRange(1, 3).Draw(t, "ipk.tags.n")]
		}
		if rapid.Bool().Draw(t, "ipk.alts?") {
			x.IPKAlternatives = []IPKAlt{{Priority: 100, Target: "/usr/bin/foo", LinkName: "/usr/bin/f"}, {Priority: 5, Target: "/bin/x", LinkName: "/bin/y"}}[:rapid.IntRange(1, 2).Draw(t, "ipk.alts.n")]
		}
		x.IPKEssential = rapid.IntRange(0, 3).Draw(t, "ipk.essential") == 0
		x.IPKAutoInstalled = rapid.IntRange(0, 3).Draw(t, "ipk.auto") == 0
		if rapid.Bool().Draw(t, "ipk.fields?") {
			x.IPKFields = map[string]string{}
			for _, k := range []string{"Source", "X-Custom", "Version", "maintainer", "Installed-Size", "Bugs"} {
				switch rapid.IntRange(0, 3).Draw(t, "ipk.field."+k) {
				case 0:
					x.IPKFields[k] = "custom " + k
				case 1:
					x.IPKFields[k] = ""
				}
			}
		}
	}
	if rapid.IntRange(0, 2).Draw(t, "x.arch") != 0 {
		x.ArchPkgbase = opt("arch.pkgbase", "basepkg")
		x.ArchPackager = opt("arch.packager", "Arch Packager <a@example.com>")
	}
	if rapid.IntRange(0, 3).Draw(t, "archoverride?") == 0 {
		// an override is used verbatim - also when it happens to be a GOARCH name the table would translate
		ov := rapid.SampledFrom(append([]string{"custom-arch", "ia64", "noarch"}, docArches...)).Draw(t, "archoverride.value")
		switch rapid.IntRange(0, 4).Draw(t, "archoverride.which") {
		case 0:
			x.DebArch = ov
		case 1:
			x.RPMArch = ov
		case 2:
			x.APKArch = ov
		case 3:
			x.ArchArch = ov
		case 4:
			x.IPKArch = ov
		}
	}
}
