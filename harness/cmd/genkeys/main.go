// genkeys writes the test-only key material used by C10/C06/C04 into testdata/keys.
// It was run once; the output is committed so that check runs are pure functions of
// seed and code. Keys are for tests only.
package main

import (
	"bytes"
	"crypto/rand"
	"crypto/rsa"
	"crypto/x509"
	"encoding/pem"
	"fmt"
	"os"
	"path/filepath"

	"github.com/ProtonMail/go-crypto/openpgp"
	"github.com/ProtonMail/go-crypto/openpgp/armor"
	"github.com/ProtonMail/go-crypto/openpgp/packet"
)

const Passphrase = "verif-passphrase"

func must(err error) {
	if err != nil {
		panic(err)
	}
}

func writePGP(dir, name string, e *openpgp.Entity, encrypt bool) {
	cfg := &packet.Config{RSABits: 2048}
	ser := func(private bool, armored bool) []byte {
		var buf bytes.Buffer
		var w interface{ Write([]byte) (int, error) } = &buf
		var closer interface{ Close() error }
		if armored {
			typ := openpgp.PublicKeyType
			if private {
				typ = openpgp.PrivateKeyType
			}
			aw, err := armor.Encode(&buf, typ, nil)
			must(err)
			w, closer = aw, aw
		}
		if private {
			must(e.SerializePrivateWithoutSigning(w.(interface {
				Write([]byte) (int, error)
			}), cfg))
		} else {
			must(e.Serialize(w.(interface {
				Write([]byte) (int, error)
			})))
		}
		if closer != nil {
			must(closer.Close())
		}
		return buf.Bytes()
	}
	must(os.WriteFile(filepath.Join(dir, name+".pub.asc"), ser(false, true), 0o644))
	must(os.WriteFile(filepath.Join(dir, name+".pub.gpg"), ser(false, false), 0o644))
	if encrypt {
		must(e.PrivateKey.Encrypt([]byte(Passphrase)))
		for _, sk := range e.Subkeys {
			if sk.PrivateKey != nil {
				must(sk.PrivateKey.Encrypt([]byte(Passphrase)))
			}
		}
	}
	must(os.WriteFile(filepath.Join(dir, name+".sec.asc"), ser(true, true), 0o600))
	must(os.WriteFile(filepath.Join(dir, name+".sec.gpg"), ser(true, false), 0o600))
	ids := fmt.Sprintf("primary=%016x\n", e.PrimaryKey.KeyId)
	for _, sk := range e.Subkeys {
		if sk.Sig != nil && sk.Sig.FlagsValid && sk.Sig.FlagSign {
			ids += fmt.Sprintf("signing-subkey=%016x\n", sk.PublicKey.KeyId)
		}
	}
	must(os.WriteFile(filepath.Join(dir, name+".ids"), []byte(ids), 0o644))
}

func main() {
	dir := "testdata/keys"
	if len(os.Args) > 1 {
		dir = os.Args[1]
	}
	must(os.MkdirAll(dir, 0o755))
	cfg := &packet.Config{RSABits: 2048}
	for _, v := range []struct {
		name          string
		subkey, crypt bool
	}{
		{"pgp-primary", false, false},
		{"pgp-primary-protected", false, true},
		{"pgp-subkey", true, false},
		{"pgp-subkey-protected", true, true},
	} {
		e, err := openpgp.NewEntity("Verif "+v.name, "test only", v.name+"@verif.example", cfg)
		must(err)
		if v.subkey {
			must(e.AddSigningSubkey(cfg))
		}
		writePGP(dir, v.name, e, v.crypt)
	}
	// RSA keys for apk
	for _, name := range []string{"rsa-a", "rsa-b"} {
		k, err := rsa.GenerateKey(rand.Reader, 2048)
		must(err)
		pkcs1 := x509.MarshalPKCS1PrivateKey(k)
		must(os.WriteFile(filepath.Join(dir, name+".pkcs1.pem"), pem.EncodeToMemory(&pem.Block{Type: "RSA PRIVATE KEY", Bytes: pkcs1}), 0o600))
		pkcs8, err := x509.MarshalPKCS8PrivateKey(k)
		must(err)
		must(os.WriteFile(filepath.Join(dir, name+".pkcs8.pem"), pem.EncodeToMemory(&pem.Block{Type: "PRIVATE KEY", Bytes: pkcs8}), 0o600))
		enc, err := x509.EncryptPEMBlock(rand.Reader, "RSA PRIVATE KEY", pkcs1, []byte(Passphrase), x509.PEMCipherAES256) //nolint
		must(err)
		must(os.WriteFile(filepath.Join(dir, name+".pkcs1.enc.pem"), pem.EncodeToMemory(enc), 0o600))
		pub, err := x509.MarshalPKIXPublicKey(&k.PublicKey)
		must(err)
		must(os.WriteFile(filepath.Join(dir, name+".pub.pem"), pem.EncodeToMemory(&pem.Block{Type: "PUBLIC KEY", Bytes: pub}), 0o644))
	}
	fmt.Println("keys written to", dir)
}
