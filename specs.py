"""Per-property check specifications used by ./check (single source for MANIFEST.json)."""

COMMON_ASSUME = [
    "harness-owned parsers (ar, rpm lead/header, cpio newc, mtree, deb822) and stdlib/klauspost/ulikunitz *readers* decode the output; no second zstd/lzma implementation and no rpm/apk/pacman/opkg binaries exist in the image",
    "the reference planner (harness/props/model.go) is written from www/docs/configuration.md and the property text; source trees use permission bits <= 0777, owner-readable",
    "a run is a pure function of /repo's working tree, the harness and VERIF_SEED (rapid seed = 1 + (VERIF_SEED*1000003 + shard) mod (2^31-2))",
]

P = {
    "C01": dict(test="TestC01", level="exploration", quick=220, thorough=(16, 1500), qtimeout=900, ttimeout=7200,
                technique="property-based testing (rapid): generated config + source tree, model oracle (reference planner) and five-format differential",
                design="DESIGN.md 4/C01",
                text="Generated content lists and source trees are packaged in all five formats from freshly parsed YAML; every payload is decoded by independent readers and compared, in both directions, with a reference planner's expected tree (path, bytes, complete mode field, owner, group, mtime, symlink target, implied directories), and the five decoded trees are compared with each other.",
                rule="rapid-generated BuildCase (contents of every type/source form/packager tag/file_info over a generated on-disk tree, umask, mtime set/unset, deb and rpm compressors) x 5 formats; non-trivial = >=3 declared payload entries of >=2 kinds and at least one of {glob, tree, file_info, per-entry packager, on-disk symlink}; distinct by hash of the case JSON"),
    "C03": dict(test="TestC03", level="exploration", quick=220, thorough=(16, 1500), qtimeout=900, ttimeout=7200,
                technique="property-based testing (rapid): digests and sizes recomputed from independently decoded bytes",
                design="DESIGN.md 4/C03",
                text="For generated payloads every stored digest/size (deb md5sums + Installed-Size, apk datahash/PAX SHA-1/size, archlinux .MTREE per mtree(5) + .PKGINFO size, rpm header SHA-256, SIGSIZE, payload digest, per-file digests and sizes, ipk Installed-Size) is recomputed from the bytes as shipped and compared.",
                rule="same generator as C01 plus optional changelog; non-trivial = >=2 regular source files with distinct contents, or a file >128KiB, or an empty payload; distinct by case hash"),
    "C04": dict(test="TestC04", level="exploration", quick=200, thorough=(16, 1000), qtimeout=900, ttimeout=7200,
                technique="property-based testing (rapid): structural well-formedness predicates on emitted bytes + dpkg-deb as second reader",
                design="DESIGN.md 4/C04",
                text="Each generated package is parsed end to end by readers that share nothing with the writers; member order/names, segment structure (apk cut/full tars, 512 alignment, single-tar concatenation), rpm alignment and cpio/header correspondence, .MTREE syntax, tar naming rules and .INSTALL-iff-scripts are asserted; dpkg-deb -I/-c must accept every 4th deb (all in thorough).",
                rule="C01 generator plus random script subsets; non-trivial = >=1 directory/tree entry, >=1 file entry and a non-default compressor or scripts; distinct by case hash"),
    "C02": dict(test="TestC02", level="exploration", quick=400, thorough=(16, 2500), qtimeout=900, ttimeout=7200,
                technique="property-based testing (rapid) + exhaustive GOARCH x format matrix: metadata decoded by independent parsers compared field by field with the configuration",
                design="DESIGN.md 4/C02",
                text="Generated identity/version/description/relation/extras settings are packaged in five formats; control members, rpm header tags and .PKGINFO files are parsed by harness-owned readers and compared with the configuration (version syntax per format, architecture per www/docs/goarch-to-pkg.md read from the working tree, relations in order under the right tag, extras iff configured). The GOARCH x format x override matrix is enumerated completely on every run.",
                rule="exhaustive 14 GOARCH values x 5 formats x {no override, override} + rapid-generated metadata; non-trivial = >=3 relation kinds non-empty, or multi-line description, or >=2 optional version parts; every matrix cell counts once; distinct by case hash"),
    "C08": dict(test="TestC08", level="exploration", quick=300, thorough=(16, 1200), qtimeout=900, ttimeout=7200,
                technique="property-based testing (rapid) + exhaustive (entry type x packager) matrix: conffiles / FILEFLAGS / backup decoded and compared with the declared types",
                design="DESIGN.md 4/C08",
                text="Every (entry type x packager tag) cell is built inside a fixed surrounding list and random content lists biased towards config entries are generated; deb/ipk conffiles, rpm FILEFLAGS and ghost modes, archlinux backup lines are decoded and must equal exactly what the declared types denote; rpm-only entries must be absent elsewhere.",
                rule="13 entry types x 6 packager tags (exhaustive) + rapid-generated content lists; non-trivial = >=1 config* entry and >=1 non-config file entry, or a config entry expanding to >=2 files; matrix cells count once; distinct by case hash"),
    "C09": dict(test="TestC09", level="exploration", quick=300, thorough=(16, 1500), qtimeout=900, ttimeout=7200,
                technique="exhaustive enumeration of script-slot subsets per format + property-based testing (rapid) over script bytes",
                design="DESIGN.md 4/C09",
                text="All subsets of the configurable script slots of each format (128+128+64+64+16 packages) are built with slot-distinct contents, plus generated byte contents (empty, no trailing newline, arbitrary non-NUL bytes, large, brace lines); each slot decoded from control members / rpm tags / .INSTALL functions must equal the configured file byte for byte and unconfigured slots must be absent.",
                rule="exhaustive slot subsets per format + rapid-generated script bytes over all 14 slots; non-trivial = >=2 populated slots with different bytes or a proper subset of slots; distinct by case hash",
                assumptions=COMMON_ASSUME + ["NUL bytes are not generated (rpm scriptlets are C strings); an empty rpm scriptlet may be an absent tag"]),
    "C05": dict(test="TestC05", level="exploration", quick=1500, thorough=(16, 4000), qtimeout=900, ttimeout=7200,
                technique="bounded-exhaustive enumeration (all content lists of <=2 / <=3 entries over a small universe, all orders) + property-based testing (rapid) with injected collisions, against a reference planner; permutation and repetition metamorphic relations",
                design="DESIGN.md 4/C05",
                text="files.PrepareForPackager is compared with an independent reference planner: same verdict (success or errors.Is ErrContentCollision), same set of (destination, type, source), destinations unique as paths / absolute / clean / ancestors first, identical plan for every permutation of the list and for repeated runs. All lists of up to 2 entries over 6 destinations x 6 types x 3 packager tags x 4 packagers in every order run in quick, all triples in thorough; destination spellings over {/ . .. a b space} are enumerated up to 5 (quick) / 7 (thorough) tokens.",
                rule="exhaustive universe (108 entries: 6 destinations x 6 types x 3 tags) singles+pairs (+triples in thorough) x 4 packagers x all orders; enumerated destination spellings x 3 types; rapid-generated lists (globs, trees) with an injected colliding entry in 2/3 of cases and 3 permutations; non-trivial = nodes equal or in ancestor relation (collision expected), or a glob/tree/dir expansion of >=2 files, or a non-canonical destination spelling; distinct by case hash",
                assumptions=COMMON_ASSUME + ["destinations whose '..' climbs above the root and destinations denoting '/' are outside the domain (counted under excluded_by_construction)"]),
}

# property id -> reason, for properties that are not claimed
NOT_APPLICABLE = {}
