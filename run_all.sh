#!/bin/bash
# Runs every registered check of one tier in sequence and prints a summary table.
tier=${1:-quick}
ids=$(python3 -c "import sys; sys.path.insert(0,'$(dirname "$0")'); from specs import P; print(' '.join(sorted(P)))")
rc=0
for p in $ids; do
  start=$(date +%s)
  out=$(python3 "$(dirname "$0")/check" $p $tier 2>&1); code=$?
  echo "$out" | grep -E "^(VIOLATION|KNOWN-FINDING|$p )" | cut -c1-300
  echo "== $p $tier exit=$code $(( $(date +%s) - start ))s"
  [ $code -ne 0 ] && rc=1
done
exit $rc
