#!/bin/bash
# eval_seeded_wt.sh <patch.diff> <Cxx> [more Cyy...]: like eval_seeded.sh but never touches /repo: the patch is applied
# in a scratch worktree and the quick checks run against it through VERIF_REPO (experiment mode of the driver).
set -u
patch=$1; shift
wt=$(mktemp -d /tmp/evalwt-XXXXXX); rmdir $wt
git -C /repo worktree add -q --detach $wt HEAD || exit 2
trap 'git -C /repo worktree remove --force $wt' EXIT
git -C $wt apply $patch || { echo "patch does not apply"; exit 2; }
for p in "$@"; do
  out=$(cd /verif && VERIF_REPO=$wt python3 check $p ${TIER:-quick} 2>&1); code=$?
  echo "== $p exit=$code"; echo "$out" | grep -E "VIOLATION|^  C[0-9]+\." | cut -c1-260 | head -6
  [ $code -ne 0 ] && [ $code -ne 1 ] && echo "$out" | tail -5
done
