#!/bin/bash
# eval_benign.sh <patch.diff> [Cxx...]: false-alarm experiment. Applies a change that is believed to keep every property
# in a scratch worktree of /repo, checks that it builds and keeps the project's suite green, and runs the quick checks
# (all of them by default, case counts scaled by VERIF_SCALE, default 0.3) against it through VERIF_REPO.
# Any "exit=1" is either a false alarm of the machinery or a change that is not benign after all: read the clause.
set -u
export GOFLAGS=-mod=mod GOPROXY=off GOSUMDB=off GOTOOLCHAIN=local
patch=$1; shift
ids=${*:-$(python3 -c "import sys; sys.path.insert(0,'/verif'); from specs import P; print(' '.join(sorted(P)))")}
wt=$(mktemp -d /tmp/benignwt-XXXXXX); rmdir $wt
git -C /repo worktree add -q --detach $wt HEAD || exit 2
trap 'git -C /repo worktree remove --force $wt' EXIT
git -C $wt apply $patch || { echo "$patch: PATCH DOES NOT APPLY"; exit 2; }
(cd $wt && go build ./... && go test -vet=off -count=1 ./... >/dev/null 2>&1) || { echo "$patch: DOES NOT BUILD OR SUITE RED"; exit 2; }
for p in $ids; do
  out=$(cd /verif && VERIF_REPO=$wt VERIF_SCALE=${VERIF_SCALE:-0.3} python3 check $p quick 2>&1); code=$?
  echo "$patch: $p exit=$code"
  [ $code -ne 0 ] && echo "$out" | grep -E "VIOLATION|^  C[0-9]+\.|BUILD-ERROR|exited" | cut -c1-400 | head -5
done
