#!/usr/bin/env python3
"""Regenerates section 8 of DESIGN.md from seeded/*/meta.json."""
import json,glob,re
p='/verif/DESIGN.md'
s=open(p).read()
rows=[]; first=0
for d in sorted(glob.glob('/verif/seeded/*/meta.json')):
    m=json.load(open(d)); ev=m['evaluation']
    notes=open(d.replace('meta.json','NOTES.md')).read()
    needs=m['needs_to_manifest']
    if len(needs)<40:
        mm=re.search(r'(?is)need[^\n]*\n+(.{40,400}?)\n\n', notes)
        if mm: needs=re.sub(r'\s+',' ',mm.group(1))
    needs=needs.replace('|','/')[:170]
    if ev['detected_before_strengthening']: first+=1
    rows.append("| %s | %s | %s | %s |" % (m['id'], needs, ", ".join(ev['violated_clauses']), "first run" if ev['detected_before_strengthening'] else "after strengthening: "+ev['note'].replace('|','/')))
i=s.index("## 8. Sensitivity: seeded changes and which checks catch them")
j=s.index("## 9. What the checks found on the real tree")
new='''## 8. Sensitivity: seeded changes and which checks catch them

For every property five changes written by fresh sub-agents exist under `/verif/seeded/<id>/` (three rounds: two changes,
two more by authors who were told which code sites and mechanisms were already taken, and a fifth by an author asked for
a defect of a different kind - typically state that survives between calls in one process, an error path, a boundary or
a difference between the command-line tool and library use). Each author was given only the text of one property and a
private scratch worktree of /repo (nothing from /verif) and had to deliver a change that still compiles and passes the
unedited suite but breaks the property only under a specific input, sequence, fault point or interleaving, plus a
demonstration. Every change was confirmed here with `tools/confirm_seeded.sh` in a fresh worktree (demo green without the
change, build + suite green with it, demo red with it) and then evaluated with `tools/eval_seeded.sh`
(`git -C /repo apply patch.diff; python3 check <Cxx> quick; git -C /repo checkout -- .`; for the third round with the
machinery as committed before the round and as it is now). `tools/sweep_seeded.sh` re-runs the whole set.

%d changes are kept; %d were caught by the quick check as it stood when the change arrived, %d were missed at first and led
to the strengthening noted in the last column. All %d are now caught by the quick tier of the property they break, and the
unchanged tree stays silent.

| seeded id | needs to manifest | clauses raised by the quick check | caught |
|---|---|---|---|
''' % (len(rows), first, len(rows)-first, len(rows)) + "\n".join(rows) + '''

Besides these, two of the repairs were used as "reverse mutants" while developing: reverting `7d40c0d`
(WithFileInfoDefaults copy) makes C11 report `C11.settings-changed` on the first packaging and makes the C12 race
binary report a data race in `files.(*Content).WithFileInfoDefaults`.

What the misses had in common: the generator was sound but did not reach a small region (block-size boundaries, names
sorting before `.PKGINFO`, prefix-named sibling directories, an override that is itself a GOARCH name, mtime exactly at the
epoch, same-packager fleets with one compressor, several files above 1 MiB, a shared script path, a present-but-empty
override list, JSON syntax), or every case started from a clean process state where the defect needed a history. The
third round made the second point systematic: caches, pools and memo tables that survive between calls. The machinery now
gives every checked build a history in its own process (a build that fails at the first write and one that fails late on a
missing script come first; the same tree is packaged again under another umask; source faults follow a successful build
in the same place; the CLI finds a longer file at its target). Each miss was fixed in the generator, by a directed
boundary probe or by adding the missing history - never by loosening an oracle.

'''
open(p,'w').write(s[:i]+new+s[j:])
print(len(rows), first)
