#!/bin/bash
# harvest_corpus.sh [seeded-id...]: for each kept seeded change, runs the quick check of the property it breaks against a
# scratch worktree with the change applied (never /repo) and saves up to two of the shrunk failing cases as
# corpus/<Cxx>/<seeded-id>.<n>.json. The corpus is replayed by every quick and thorough run (driver: "replay tier").
set -u
cd /verif
ids=${*:-$(ls seeded)}
one() {
  id=$1; prop=${id%%-*}
  wt=$(mktemp -d /tmp/harvest-XXXXXX); rmdir $wt
  git -C /repo worktree add -q --detach $wt HEAD || return
  if git -C $wt apply /verif/seeded/$id/patch.diff 2>/dev/null; then
    hv=$(mktemp -d /tmp/harvested-XXXXXX)
    VERIF_REPO=$wt VERIF_HARVEST=$hv VERIF_SEED=${VERIF_SEED:-5} python3 /verif/check $prop quick >/dev/null 2>&1
    n=0
    for f in $(ls -S -r $hv/*.json 2>/dev/null | head -2); do n=$((n+1)); mkdir -p /verif/corpus/$prop; cp $f /verif/corpus/$prop/$id.$n.json; done
    echo "$id: $n cases harvested"
    rm -rf $hv
  else
    echo "$id: patch does not apply"
  fi
  git -C /repo worktree remove --force $wt
}
export -f one
echo $ids | tr ' ' '\n' | xargs -P ${JOBS:-4} -I{} bash -c 'one {}'
