#!/bin/bash
# eval_seeded.sh <patch.diff> <Cxx> [more Cyy...]: applies the patch to /repo, runs the quick checks, reverts.
set -u
patch=$1; shift
[ -n "$(git -C /repo status --porcelain)" ] && { echo "/repo not clean"; exit 2; }
git -C /repo apply $patch || { echo "patch does not apply"; exit 2; }
trap 'git -C /repo checkout -q -- . ; git -C /repo clean -fdq' EXIT
for p in "$@"; do
  out=$(cd /verif && python3 check $p ${TIER:-quick} 2>&1); code=$?
  echo "== $p exit=$code"; echo "$out" | grep -E "VIOLATION|^  C[0-9]+\." | cut -c1-260 | head -6
done
