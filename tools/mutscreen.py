#!/usr/bin/env python3
"""Mutation screening of the checks (an experiment tool, not a registered check).

Generates simple one-line mutants of the nfpm sources in scratch worktrees of /repo, drops those that do not compile or
that the project's own unit tests kill, and runs the relevant quick checks (scaled down) against the survivors through
`VERIF_REPO=<worktree> python3 check Cxx quick`. /repo itself is never modified.

  tools/mutscreen.py [--per-file N] [--workers K] [--seed S] [--scale F] [--out FILE] [--files a.go,b.go]
"""
import argparse, json, os, random, re, shutil, subprocess, sys, tempfile, threading, time

ENV = dict(os.environ, GOFLAGS="-mod=mod", GOPROXY="off", GOSUMDB="off", GOTOOLCHAIN="local")

RELEVANT = {
    "files/files.go": ["C01", "C05", "C08", "C11", "C13"],
    "internal/glob/glob.go": ["C01", "C05"],
    "nfpm.go": ["C13", "C14", "C16", "C02", "C11", "C06"],
    "deb/deb.go": ["C01", "C02", "C03", "C04", "C06", "C08", "C09", "C10", "C15", "C07"],
    "rpm/rpm.go": ["C01", "C02", "C03", "C04", "C06", "C08", "C09", "C10", "C14", "C15", "C07"],
    "apk/apk.go": ["C01", "C02", "C03", "C04", "C06", "C09", "C10", "C15", "C07"],
    "arch/arch.go": ["C01", "C02", "C03", "C04", "C06", "C08", "C09", "C15", "C07"],
    "ipk/ipk.go": ["C01", "C02", "C03", "C04", "C06", "C08", "C09", "C15", "C07"],
    "ipk/tar.go": ["C01", "C03", "C04", "C06", "C09", "C07"],
    "internal/cmd/package.go": ["C06", "C15", "C13"],
    "internal/sign/pgp.go": ["C10"],
    "internal/sign/rsa.go": ["C10"],
    "internal/modtime/mtime.go": ["C07", "C03"],
}

OPS = [
    (r" == ", " != "), (r" != ", " == "), (r" && ", " || "), (r" \|\| ", " && "),
    (r" < ", " <= "), (r" > ", " >= "), (r" <= ", " < "), (r" >= ", " > "),
    (r" \+ ", " - "), (r" - ", " + "),
    (r"\btrue\b", "false"), (r"\bfalse\b", "true"),
    (r"\b0o755\b", "0o750"), (r"\b0o644\b", "0o640"), (r"\b0o600\b", "0o644"), (r"\b512\b", "511"), (r"\b511\b", "512"), (r"\b1024\b", "1000"),
    (r"\b0\b", "1"), (r"\b1\b", "0"), (r"\b2\b", "3"),
    (r"return err$", "return nil"), (r"return nil, err$", "return nil, nil"),
    (r"\.TrimSpace\(", ".TrimLeft(\" \", "), (r"HasSuffix\(", "HasPrefix("), (r"HasPrefix\(", "HasSuffix("),
    (r"TrimLeft\(", "TrimRight("), (r"TrimRight\(", "TrimLeft("), (r"TrimPrefix\(", "TrimSuffix("),
    (r"\bcontinue$", "break"), (r"\bbreak$", "continue"),
]


def gen_mutants(path, text):
    out = []
    lines = text.split("\n")
    in_block_comment = False
    for i, line in enumerate(lines):
        st = line.strip()
        if st.startswith("/*"):
            in_block_comment = True
        if in_block_comment:
            if "*/" in st:
                in_block_comment = False
            continue
        if not st or st.startswith("//") or st.startswith("import") or st.startswith('"') or "jsonschema:" in line or st.startswith("package "):
            continue
        code = line.split(" //")[0]
        for pat, rep in OPS:
            for m in re.finditer(pat, code):
                # skip matches inside string literals (odd number of quotes before the match)
                if code[:m.start()].count('"') % 2 == 1 or code[:m.start()].count('`') % 2 == 1:
                    continue
                new = code[:m.start()] + re.sub(pat, rep, code[m.start():m.end()], count=1) + code[m.end():] + line[len(code):]
                if new != line:
                    out.append(dict(file=path, line=i + 1, op=pat + " -> " + rep, old=line.strip(), new=new.strip(), newline=new))
        # statement deletion: simple assignments / appends / calls that are a statement on their own
        if re.match(r"^\s+[A-Za-z_][\w.\[\]]* (=|\+=|\|=) [^{]*$", code) and not code.strip().endswith(","):
            out.append(dict(file=path, line=i + 1, op="delete statement", old=line.strip(), new="// " + line.strip(), newline=re.match(r"^\s*", line).group(0) + "// " + line.strip()))
    return out


def sh(cmd, cwd, timeout, env=ENV):
    try:
        r = subprocess.run(cmd, cwd=cwd, env=env, timeout=timeout, stdout=subprocess.PIPE, stderr=subprocess.STDOUT, text=True, errors="replace")
        return r.returncode, r.stdout
    except subprocess.TimeoutExpired:
        return 124, "timeout"


def worker(wid, queue, results, lock, args):
    wt = tempfile.mkdtemp(prefix="mutscreen-%d-" % wid)
    os.rmdir(wt)
    subprocess.run(["git", "-C", "/repo", "worktree", "add", "-q", "--detach", wt, "HEAD"], check=True)
    try:
        while True:
            with lock:
                if not queue:
                    return
                m = queue.pop()
            path = os.path.join(wt, m["file"])
            orig = open(path).read()
            lines = orig.split("\n")
            lines[m["line"] - 1] = m["newline"]
            open(path, "w").write("\n".join(lines))
            res = dict(m)
            res.pop("newline")
            try:
                rc, out = sh(["go", "build", "./..."], wt, 300)
                if rc != 0:
                    res["status"] = "does-not-compile"
                    continue
                rc, out = sh(["go", "vet", "./" + os.path.dirname(m["file"])], wt, 300)
                rc, out = sh(["go", "test", "-vet=off", "-count=1", "-timeout", "10m", "./..."], wt, 900)
                if rc != 0:
                    res["status"] = "killed-by-unit-tests"
                    continue
                det = []
                env = dict(ENV, VERIF_REPO=wt, VERIF_SCALE=str(args.scale), VERIF_SEED=str(args.seed))
                status = "survived"
                for c in RELEVANT.get(m["file"], []):
                    rc, out = sh(["python3", "/verif/check", c, "quick"], "/verif", 1500, env)
                    if rc == 1:
                        det.append(c)
                        status = "detected"
                        clause = re.findall(r"^  (C\d+\.\S+)", out, re.M)
                        res.setdefault("clauses", []).extend(clause[:2])
                        if not args.all_checks:
                            break
                    elif rc != 0:
                        res.setdefault("infra", []).append("%s exit %d: %s" % (c, rc, out[-300:]))
                        if status != "detected":
                            status = "infra"
                res["status"] = status
                res["detected_by"] = det
            finally:
                open(path, "w").write(orig)
                with lock:
                    results.append(res)
                    with open(args.out, "a") as f:
                        f.write(json.dumps(res) + "\n")
                    print("[%d left] %s:%d %s => %s %s" % (len(queue), m["file"], m["line"], m["op"], res.get("status"), res.get("detected_by", "")), flush=True)
    finally:
        subprocess.run(["git", "-C", "/repo", "worktree", "remove", "--force", wt])


def main():
    ap = argparse.ArgumentParser()
    ap.add_argument("--per-file", type=int, default=25)
    ap.add_argument("--workers", type=int, default=4)
    ap.add_argument("--seed", type=int, default=1)
    ap.add_argument("--scale", type=float, default=0.25)
    ap.add_argument("--out", default="/tmp/mutscreen.jsonl")
    ap.add_argument("--files", default="")
    ap.add_argument("--all-checks", action="store_true")
    args = ap.parse_args()
    rnd = random.Random(args.seed)
    files = [f for f in args.files.split(",") if f] or sorted(RELEVANT)
    queue = []
    for f in files:
        ms = gen_mutants(f, open(os.path.join("/repo", f)).read())
        rnd.shuffle(ms)
        queue.extend(ms[:args.per_file])
    rnd.shuffle(queue)
    print("%d mutants queued" % len(queue), flush=True)
    results, lock = [], threading.Lock()
    ths = [threading.Thread(target=worker, args=(i, queue, results, lock, args)) for i in range(args.workers)]
    for t in ths:
        t.start()
    for t in ths:
        t.join()
    summary = {}
    for r in results:
        summary[r["status"]] = summary.get(r["status"], 0) + 1
    print("SUMMARY", summary)


if __name__ == "__main__":
    main()
