#!/usr/bin/env python3
"""keep_seeded.py <src-dir> <id> <property> <demo-dst-in-repo> <demo-cmd> <caught-initially:yes|no> <clauses> [note]
Copies a confirmed seeded change into /verif/seeded/<id>/ and writes meta.json."""
import json, os, shutil, sys
src, sid, prop, demo_dst, demo_cmd, initially, clauses = sys.argv[1:8]
note = sys.argv[8] if len(sys.argv) > 8 else ""
dst = os.path.join('/verif/seeded', sid)
os.makedirs(dst, exist_ok=True)
for fn in os.listdir(src):
    if fn in ('patch.diff', 'demo_test.go', 'demo.go', 'DEMO.txt', 'NOTES.md'):
        shutil.copy(os.path.join(src, fn), os.path.join(dst, fn))
notes = open(os.path.join(src, 'NOTES.md')).read() if os.path.exists(os.path.join(src, 'NOTES.md')) else ''
needs = ''
for line in notes.splitlines():
    if 'need' in line.lower() or 'manifest' in line.lower() or 'trigger' in line.lower():
        needs = line.strip(' -*#'); break
meta = dict(id=sid, breaks_property=prop, source="independent sub-agent given only the property text and a scratch worktree",
            needs_to_manifest=needs or "see NOTES.md",
            demonstration=dict(copy_to=demo_dst, command=demo_cmd),
            confirmed=dict(how="tools/confirm_seeded.sh in a fresh scratch worktree of /repo: demo passes without the change; go build + unedited suite pass with it; demo fails with it",
                           result="CONFIRMED"),
            evaluation=dict(how="tools/eval_seeded.sh: git -C /repo apply patch.diff; python3 check %s quick; git -C /repo checkout -- ." % prop,
                            detected_by_quick_check=True, detected_before_strengthening=(initially == 'yes'),
                            violated_clauses=clauses.split(','), note=note))
json.dump(meta, open(os.path.join(dst, 'meta.json'), 'w'), indent=1)
print('kept', sid)
