#!/bin/bash
# confirm_seeded.sh <mutant-dir> <demo-relpath-in-repo> <go test args...>
# Confirms in a fresh scratch worktree of /repo that: the patch applies, the tree builds, the existing
# suite passes with it, the demonstration fails with it and passes without it.
set -u
export GOFLAGS=-mod=mod GOPROXY=off GOSUMDB=off GOTOOLCHAIN=local
mut=$1; demo_dst=$2; shift 2
wt=$(mktemp -d /tmp/confirm-XXXXXX); rmdir $wt
git -C /repo worktree add -q --detach $wt HEAD || exit 2
cleanup() { git -C /repo worktree remove --force $wt; }
trap cleanup EXIT
cd $wt
demo_src=$(ls $mut/demo_test.go $mut/demo.go 2>/dev/null | head -1)
mkdir -p $(dirname $demo_dst); cp $demo_src $demo_dst
echo "--- demo WITHOUT the change (must pass)"
go test -vet=off -count=1 "$@" 2>&1 | tail -3; base=${PIPESTATUS[0]}
git apply $mut/patch.diff || { echo "PATCH DOES NOT APPLY"; exit 2; }
echo "--- build + existing suite WITH the change (must pass)"
rm -f $demo_dst
go build ./... && go test -vet=off -count=1 ./... 2>&1 | grep -v 'no test files' | grep -v '^ok' ; suite=${PIPESTATUS[0]}
cp $demo_src $demo_dst
echo "--- demo WITH the change (must fail)"
go test -vet=off -count=1 "$@" 2>&1 | tail -5; mutd=${PIPESTATUS[0]}
echo "RESULT demo_without=$base suite_with=$suite demo_with=$mutd"
[ $base -eq 0 ] && [ $suite -eq 0 ] && [ $mutd -ne 0 ] && echo CONFIRMED || echo NOT-CONFIRMED
