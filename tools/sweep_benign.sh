#!/bin/bash
# sweep_benign.sh: runs every quick check (scaled by VERIF_SCALE, default 0.2) against each change under /verif/benign
# in scratch worktrees (never /repo). Every line must end in exit=0; an exit=1 is a false alarm to investigate.
for d in /verif/benign/C??/benign?.diff /verif/benign/C??/edge?.diff; do
  VERIF_SCALE=${VERIF_SCALE:-0.2} /verif/tools/eval_benign.sh $d "$@"
done
