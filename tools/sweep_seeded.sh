#!/bin/bash
# sweep_seeded.sh: applies every kept seeded change to /repo in turn, runs the quick check of the property it breaks
# (VERIF_SEED from the environment) and reports whether it was detected. /repo is restored after each one.
cd /verif
[ -n "$(git -C /repo status --porcelain)" ] && { echo "/repo not clean"; exit 2; }
miss=0; n=0
for d in seeded/*/; do
  id=$(basename $d); prop=$(python3 -c "import json;print(json.load(open('$d/meta.json'))['breaks_property'])")
  git -C /repo apply /verif/$d/patch.diff || { echo "$id: PATCH DOES NOT APPLY"; miss=$((miss+1)); continue; }
  out=$(python3 check $prop quick 2>&1); code=$?
  git -C /repo checkout -q -- . ; git -C /repo clean -fdq
  n=$((n+1))
  if [ $code -eq 1 ]; then echo "$id: detected ($(echo "$out" | grep -E '^  C[0-9]+\.' | head -1 | awk '{print $1}'))"; else echo "$id: NOT DETECTED (exit $code)"; miss=$((miss+1)); fi
done
echo "SWEEP: $n changes, $miss not detected"
[ $miss -eq 0 ]
